package main

import (
	"fmt"
	"os"
	"path/filepath"
	"runtime"
	"sort"
	"strings"

	"verifharness/lib"
)

func init() { register("C09", runC09) }

type c09Def struct {
	file          string
	funcLv, scope int
	line          int // 1-based line of the assignment
}

type c09World struct {
	files   map[string]string
	defs    map[string][]c09Def // global name → its definitions (one per file)
	user    string              // the file that uses the globals
	uses    map[string][2]int   // global name → (line, col) of a use in the user file
	tieMod  bool                // two equally ranked module files
	sibMod  bool                // same-named modules in sibling directories, required from inside one of them
	dupCls  bool                // an annotation class declared in several files
	clsLine int                 // the line of the user file that names it in ---@type
}

// genC09World: files defining globals, some of them in several files:
//
//	pattern A: top level, different lines            (a dominating definition exists)
//	pattern B: top level, the same line number       (none dominates)
//	pattern C: nested (do-block) earlier vs top level later (none dominates)
//	pattern D: top level earlier vs nested later     (the top-level one dominates)
func genC09World(r *lib.Rng) *c09World {
	w := &c09World{files: map[string]string{}, defs: map[string][]c09Def{}, uses: map[string][2]int{}}
	nf := 2 + r.Intn(3)
	lines := make([][]string, nf)
	fname := func(i int) string { return fmt.Sprintf("d%d.lua", i) }
	put := func(i int, atLine int, text ...string) int {
		for len(lines[i]) < atLine-1 {
			lines[i] = append(lines[i], fmt.Sprintf("local pad%d_%d = 0", i, len(lines[i])))
		}
		lines[i] = append(lines[i], text...)
		return atLine
	}
	ng := 2 + r.Intn(4)
	for g := 0; g < ng; g++ {
		name := fmt.Sprintf("GG%d", g)
		a, b := r.Intn(nf), r.Intn(nf)
		for b == a {
			b = r.Intn(nf)
		}
		body := func(k int) string { return fmt.Sprintf("function(p1%s) return p1 end", strings.Repeat(", q", k)) }
		switch r.Intn(5) {
		case 0: // single definition
			l := put(a, len(lines[a])+1, name+" = "+body(0))
			w.defs[name] = []c09Def{{fname(a), 0, 0, l}}
		case 1: // A
			l1 := put(a, len(lines[a])+1, name+" = "+body(0))
			l2 := put(b, maxInt(len(lines[b])+1, l1+1+r.Intn(3)), name+" = "+body(1))
			w.defs[name] = []c09Def{{fname(a), 0, 0, l1}, {fname(b), 0, 0, l2}}
		case 2: // B: same line number
			l := maxInt(len(lines[a]), len(lines[b])) + 1
			put(a, l, name+" = "+body(0))
			put(b, l, name+" = "+body(1))
			w.defs[name] = []c09Def{{fname(a), 0, 0, l}, {fname(b), 0, 0, l}}
		case 3: // C: nested earlier, top level later
			l1 := put(a, len(lines[a])+1, "do", "  "+name+" = "+body(0), "end") + 1
			l2 := put(b, maxInt(len(lines[b])+1, l1+1), name+" = "+body(1))
			w.defs[name] = []c09Def{{fname(a), 0, 1, l1}, {fname(b), 0, 0, l2}}
		default: // D: top level earlier, nested later
			l1 := put(a, len(lines[a])+1, name+" = "+body(0))
			l2 := put(b, maxInt(len(lines[b])+1, l1+1), "do", "  "+name+" = "+body(1), "end") + 1
			w.defs[name] = []c09Def{{fname(a), 0, 0, l1}, {fname(b), 0, 1, l2}}
		}
	}
	if r.Chance(1, 2) {
		// an annotation class declared in two or three files: every declaration gets the duplicate warning
		k := 2
		if nf > 2 && r.Chance(1, 2) {
			k = 3
		}
		perm := make([]int, nf)
		for i := range perm {
			perm[i] = i
		}
		r.Shuffle(nf, func(i, j int) { perm[i], perm[j] = perm[j], perm[i] })
		w.dupCls = true
		for _, i := range perm[:k] {
			lines[i] = append(lines[i], "---@class DupCls", fmt.Sprintf("---@field f%d number", i), fmt.Sprintf("local dupv%d = {}", i), fmt.Sprintf("print(dupv%d)", i))
		}
	}
	for i := 0; i < nf; i++ {
		w.files[fname(i)] = strings.Join(lines[i], "\n") + "\n"
	}
	// the user file
	var u []string
	var names []string
	for n := range w.defs {
		names = append(names, n)
	}
	sort.Strings(names)
	for _, n := range names {
		w.uses[n] = [2]int{len(u), len("print(")}
		u = append(u, fmt.Sprintf("print(%s(1, 2))", n))
	}
	if w.dupCls {
		// the type name in an annotation: which declaration hover and go-to-definition show
		w.clsLine = len(u)
		u = append(u, "---@type DupCls", "local dcv = {}", "print(dcv)")
	}
	if r.Chance(1, 3) {
		w.tieMod = true
		w.files["ma/mod.lua"] = "local M = {}\nM.who = 1\nreturn M\n"
		w.files["mb/mod.lua"] = "local M = {}\nM.who = 2\nreturn M\n"
		u = append(u, "local m = require(\"mod\")", "print(m.who)")
	}
	if r.Chance(1, 2) {
		// the requiring file shares its directory with one candidate: that one must always win
		w.sibMod = true
		for i, d := range []string{"sa", "sb", "sc", "sd"} {
			w.files[d+"/util.lua"] = fmt.Sprintf("local M = {}\nM.who = %d\nfunction M.run(%s) end\nreturn M\n", i, strings.Repeat("p,", i)+"q")
		}
		w.files["sc/main2.lua"] = "local u = require(\"util\")\nprint(u.who)\nu.run(1, 2)\n"
	}
	w.user = "user.lua"
	w.files[w.user] = strings.Join(u, "\n") + "\n"
	// a local table whose members end at different columns (its outline range is a maximum over a map), and a
	// table with more members than a hover previews (which ones are shown must not depend on map order)
	w.files["tbl.lua"] = "local M = {}\n\nfunction M.short(x) return x end\n\nfunction M.longer(a, b)\n  local s = a + b\n  return s\nend\n\nM.cfg = {\n  verbose_output_flag = true,\n  n = 1,\n}\n\nreturn M\n"
	var big []string
	big = append(big, "local Big = {")
	for k := 0; k < 40; k++ {
		big = append(big, fmt.Sprintf("  field_%02d = %d,", k, k))
	}
	big = append(big, "}", "print(Big)")
	w.files["big.lua"] = strings.Join(big, "\n") + "\n"
	// warning-level diagnostics on (half of the worlds), and an enum block whose duplicate values are found
	// by walking a map of locals: which pair is named, and where, must not depend on the iteration order
	if r.Chance(1, 2) {
		w.files["luahelper.json"] = "{\"ShowWarnFlag\":1}"
		if r.Chance(1, 2) {
			// two per-file rules that both match ign/a.lua and list different types: the rules are kept in a map, what
			// they suppress must not depend on which one is met first
			w.files["luahelper.json"] = "{\"ShowWarnFlag\":1,\"IgnoreFileErrTypes\":[{\"File\":\"ign/\",\"Types\":[4]},{\"File\":\"a.lua\",\"Types\":[7]},{\"File\":\"gn/a\",\"Types\":[2]}]}"
		}
	}
	// unused locals in scopes that also declare '_' (the scope's locals are walked as a map), in a file that several
	// per-file ignore rules match and in one that none matches
	unusedSrc := "local function fu(t)\n  local _, ua = next(t)\n  local ub = 1\n  local uc = 2\n  local ud, ue = 3, 4, 5\n  for _, uf in pairs(t) do local ug = undefinedU end\nend\nfu({})\n"
	w.files["ign/a.lua"] = unusedSrc
	w.files["unused.lua"] = unusedSrc
	// more files than the symbol / analysis worker pools have goroutines (NumCPU+2): a worker serves several files, and
	// what it returns for one must not contain what it collected for another
	for i := 0; i < runtime.NumCPU()+10; i++ {
		w.files[fmt.Sprintf("many/m%02d.lua", i)] = fmt.Sprintf("GGsym_%02d_a = 1\nfunction GGsym_%02d_b() end\n", i, i)
	}
	// two table constructors with a same-named key on one line (the owner of a key is searched in maps of locals / globals)
	w.files["keys.lua"] = "local ca, cb = {kk = 1}, {kk = 2}\nprint(ca.kk, cb.kk)\ngca = {gk = 1} gcb = {gk = 2}\nprint(gca.gk, gcb.gk)\n"
	w.files["enum.lua"] = "---@enum start\nlocal RED = 1\nlocal GREEN = 2\nlocal BLUE = 1\nlocal PINK = 1\nlocal GREY = 2\n---@enum end\nprint(RED, GREEN, BLUE, PINK, GREY)\n" +
		"---@enum start\nKIND = {\n  A = 1,\n  B = 2,\n  C = 1,\n  D = 2,\n  E = 1,\n}\n---@enum end\n"
	return w
}

func maxInt(a, b int) int {
	if a > b {
		return a
	}
	return b
}

// one run: normalised observations keyed by what was asked
func c09Observe(dir string, w *c09World, order []string) (map[string]string, error) {
	os.RemoveAll(dir)
	os.MkdirAll(dir, 0o755)
	for _, f := range order { // creation order varies the directory listing order on some file systems
		p := filepath.Join(dir, f)
		os.MkdirAll(filepath.Dir(p), 0o755)
		if err := os.WriteFile(p, []byte(w.files[f]), 0o644); err != nil {
			return nil, err
		}
	}
	sess, err := lib.StartSession(dir, lib.AllChecksOptions())
	if err != nil {
		return nil, err
	}
	defer sess.Close()
	obs := map[string]string{}
	sess.DidOpen(w.user, w.files[w.user])
	sess.Sync()
	for f, ds := range sess.DiagView() {
		var l []string
		for _, d := range ds {
			l = append(l, fmt.Sprintf("%d:%d %s", d.Range.Start.Line, d.Range.Start.Character, d.Message))
		}
		sort.Strings(l)
		obs["diag:"+f] = strings.Join(l, " | ")
	}
	for n, pos := range w.uses {
		locs, err := sess.Definition(w.user, pos[0], pos[1])
		if err != nil {
			return nil, err
		}
		d := "-"
		if len(locs) > 0 {
			d = fmt.Sprintf("%s:%d", sess.Rel(locs[0].URI), locs[0].Range.Start.Line+1)
		}
		obs["def:"+n] = d
		h, err := sess.Hover(w.user, pos[0], pos[1])
		if err != nil {
			return nil, err
		}
		obs["hover:"+n] = lib.Trunc(strings.ReplaceAll(h, "\n", " "), 120)
		refs, err := sess.References(w.user, pos[0], pos[1], true)
		if err != nil {
			return nil, err
		}
		var rl []string
		for _, rf := range refs {
			rl = append(rl, fmt.Sprintf("%s:%d:%d", sess.Rel(rf.URI), rf.Range.Start.Line, rf.Range.Start.Character))
		}
		sort.Strings(rl)
		obs["refs:"+n] = strings.Join(rl, " ")
	}
	if w.dupCls {
		if h, err := sess.Hover(w.user, w.clsLine, len("---@type D")); err == nil {
			obs["clshover"] = lib.Trunc(strings.ReplaceAll(h, "\n", " "), 160)
		}
		if locs, err := sess.Definition(w.user, w.clsLine, len("---@type D")); err == nil {
			var dl []string
			for _, l := range locs {
				dl = append(dl, fmt.Sprintf("%s:%d", sess.Rel(l.URI), l.Range.Start.Line))
			}
			obs["clsdef"] = strings.Join(dl, " ") // in answer order: the first one is what the editor jumps to
		}
	}
	if w.tieMod {
		ul := strings.Split(w.files[w.user], "\n")
		line := len(ul) - 2
		locs, err := sess.Definition(w.user, line, strings.Index(ul[line], "who"))
		if err != nil {
			return nil, err
		}
		d := "-"
		if len(locs) > 0 {
			d = sess.Rel(locs[0].URI)
		}
		obs["modmember"] = d
	}
	if w.sibMod {
		sess.DidOpen("sc/main2.lua", w.files["sc/main2.lua"])
		sess.Sync()
		locs, err := sess.Definition("sc/main2.lua", 1, len("print(u."))
		if err != nil {
			return nil, err
		}
		d := "-"
		if len(locs) > 0 {
			d = sess.Rel(locs[0].URI)
		}
		obs["sibmember"] = d
	}
	ws, err := sess.WorkspaceSymbol("GG")
	if err != nil {
		return nil, err
	}
	var sl []string
	for _, s := range ws {
		sl = append(sl, fmt.Sprintf("%s@%s:%d", s.Name, sess.Rel(s.Location.URI), s.Location.Range.Start.Line))
	}
	sort.Strings(sl)
	obs["wssym"] = strings.Join(sl, " ")
	for i := 1; i < len(sl); i++ {
		if sl[i] == sl[i-1] {
			obs["wssym-duplicate"] = sl[i]
		}
	}
	// keys of two constructors on one line: definition / hover / references on each key must answer for that key
	sess.DidOpen("keys.lua", w.files["keys.lua"])
	sess.Sync()
	for _, kp := range [][3]int{{0, 16, 2}, {0, 26, 2}, {2, 7, 2}, {2, 22, 2}} {
		tag := fmt.Sprintf("keys:%d:%d", kp[0], kp[1])
		if locs, err := sess.Definition("keys.lua", kp[0], kp[1]); err == nil {
			var l []string
			for _, x := range locs {
				l = append(l, locOfRange(x.Range))
			}
			obs[tag+":def"] = strings.Join(l, " ")
		}
		if hov, err := sess.Hover("keys.lua", kp[0], kp[1]); err == nil {
			obs[tag+":hover"] = hov
		}
		if locs, err := sess.References("keys.lua", kp[0], kp[1], true); err == nil {
			var l []string
			for _, x := range locs {
				l = append(l, locOfRange(x.Range))
			}
			sort.Strings(l)
			obs[tag+":refs"] = strings.Join(l, " ")
		}
	}
	if tsyms, err := sess.DocumentSymbol("tbl.lua"); err == nil {
		var flat []flatSym
		flattenSyms(tsyms, &flat)
		var l []string
		for _, y := range flat {
			l = append(l, y.raw+"@"+locOfRange(y.rg)+"/"+locOfRange(y.sel))
		}
		sort.Strings(l)
		obs["docsym:tbl.lua"] = strings.Join(l, " ")
	}
	sess.DidOpen("big.lua", w.files["big.lua"])
	sess.Sync()
	if hov, err := sess.Hover("big.lua", 42, 7); err == nil {
		obs["hover:Big"] = hov
	}
	syms, err := sess.DocumentSymbol(w.user)
	if err == nil {
		var flat []flatSym
		flattenSyms(syms, &flat)
		var l []string
		for _, y := range flat {
			l = append(l, y.raw+"@"+locOfRange(y.rg)+"/"+locOfRange(y.sel))
		}
		sort.Strings(l)
		obs["docsym"] = strings.Join(l, " ")
	}
	return obs, nil
}

func runC09(res *lib.Result, tier string, seed int64, args []string) error {
	nW, reps := 30, 5
	if tier == "thorough" {
		nW, reps = 400, 8
	}
	res.Rule = "workspaces of 2-4 files defining 2-5 globals, each in one or two files (both at top level on different lines; on the same line number; nested in a do-block earlier vs top level later and the reverse), a user file calling every global, optionally an annotation class declared in two or three files, optionally two equally ranked module files, optionally four same-named modules in sibling directories required from inside one of them; each workspace is analysed 5 (thorough: 8) times with GOMAXPROCS in {1,2,16}, shuffled file creation order and the Go runtime's random map iteration; normalised diagnostics of every file, definition / hover / references of every global use, workspace and document symbols must be identical in all runs; for a global with a dominating definition (Lean: Merge.dominantOf, theorem dominant_wins_any_order) go-to-definition must lead to it in every run, for every multiply defined global it must lead to the winner of the visit in file-name order (Merge.winnerSorted, theorem sorted_visit_function_of_workspace); non-trivial = the workspace has a global defined in two files; distinct by workspace"
	drv, err := lib.StartDriver()
	if err != nil {
		return err
	}
	defer drv.Close()
	prevProcs := runtime.GOMAXPROCS(0)
	defer runtime.GOMAXPROCS(prevProcs)
	root := lib.NewRng(uint64(seed))
	for wi := 0; wi < nW; wi++ {
		r := root.Fork(uint64(wi))
		w := genC09World(r)
		var names []string
		for f := range w.files {
			names = append(names, f)
		}
		sort.Strings(names)
		dominant := map[string]string{} // global → dominating file ("-" if none)
		sortedWinner := map[string]string{}
		multi := false
		for g, ds := range w.defs {
			var cs []string
			for _, d := range ds {
				cs = append(cs, fmt.Sprintf("%s:%d:%d:%d", d.file, d.funcLv, d.scope, d.line))
			}
			if len(ds) > 1 {
				multi = true
			}
			ans, err := drv.Ask("merge " + strings.Join(cs, ";"))
			if err != nil {
				return err
			}
			dominant[g] = "-"
			if i := strings.Index(ans, " D="); i >= 0 {
				dominant[g] = ans[i+3:]
			}
			// the winner of the sorted visit (Props/C09 sorted_visit_function_of_workspace): with or without a dominating definition
			if i, j := strings.Index(ans, " S="), strings.Index(ans, " D="); i >= 0 && j > i && len(ds) > 1 {
				sortedWinner[g] = ans[i+3 : j]
			}
		}
		var worldText strings.Builder
		for _, f := range names {
			worldText.WriteString("-- " + f + "\n" + w.files[f])
		}
		dir := lib.ScratchDir(fmt.Sprintf("c09w%d", wi))
		var first map[string]string
		res.Count(worldText.String(), multi)
		if wi < 1 {
			res.Sample(map[string]interface{}{"workspace": lib.Trunc(worldText.String(), 600)})
		}
		for rep := 0; rep < reps; rep++ {
			runtime.GOMAXPROCS([]int{1, 2, 16}[rep%3])
			order := append([]string{}, names...)
			r.Fork(uint64(1000+rep)).Shuffle(len(order), func(i, j int) { order[i], order[j] = order[j], order[i] })
			caseText := fmt.Sprintf("run %d (GOMAXPROCS %d, creation order %v)\n%s", rep, []int{1, 2, 16}[rep%3], order, worldText.String())
			lib.Breadcrumb("C09 " + caseText)
			obs, err := c09Observe(dir, w, order)
			if err != nil {
				res.AddViolation("crash-or-timeout", err.Error(), caseText, false)
				break
			}
			res.Dist("runs")
			// model: a dominated global must resolve to the dominating definition
			for g, dfile := range dominant {
				if dfile == "-" {
					continue
				}
				var line int
				for _, d := range w.defs[g] {
					if d.file == dfile {
						line = d.line
					}
				}
				want := fmt.Sprintf("%s:%d", dfile, line)
				if obs["def:"+g] != want {
					res.AddViolation("impl-vs-model", fmt.Sprintf("go-to-definition of %s leads to %s, the dominating definition is %s", g, obs["def:"+g], want), caseText, false)
				}
			}
			for g, wfile := range sortedWinner {
				var line int
				for _, d := range w.defs[g] {
					if d.file == wfile {
						line = d.line
					}
				}
				if want := fmt.Sprintf("%s:%d", wfile, line); obs["def:"+g] != want {
					res.AddViolation("impl-vs-model", fmt.Sprintf("go-to-definition of %s leads to %s, the winner of the visit in file-name order is %s", g, obs["def:"+g], want), caseText, false)
				}
			}
			if d := obs["wssym-duplicate"]; d != "" {
				res.AddViolation("impl-vs-spec", fmt.Sprintf("workspace/symbol \"GG\" lists %s twice", d), caseText, false)
			}
			for _, kp := range [][2]string{{"keys:0:16", "1:16:1:18"}, {"keys:0:26", "1:26:1:28"}, {"keys:2:7", "3:7:3:9"}, {"keys:2:22", "3:22:3:24"}} {
				if got := obs[kp[0]+":def"]; got != kp[1] {
					res.AddViolation("impl-vs-spec", fmt.Sprintf("keys.lua: go-to-definition on the constructor key at %s leads to [%s], the key itself is %s", kp[0][5:], got, kp[1]), caseText, false)
				}
			}
			if w.sibMod && obs["sibmember"] != "sc/util.lua" {
				res.AddViolation("impl-vs-model", fmt.Sprintf("require(\"util\") from sc/main2.lua loads %s; the candidate in the same directory (sc/util.lua) has the strictly best score (C18 model)", obs["sibmember"]), caseText, false)
			}
			if first == nil {
				first = obs
				continue
			}
			var keys []string
			for k := range first {
				keys = append(keys, k)
			}
			for k := range obs {
				if _, ok := first[k]; !ok {
					keys = append(keys, k)
				}
			}
			sort.Strings(keys)
			for _, k := range keys {
				if first[k] == obs[k] {
					continue
				}
				detail := fmt.Sprintf("%s differs between two runs on the same workspace:\n  run 0: %s\n  run %d: %s", k, first[k], rep, obs[k])
				res.AddViolation("inconsistent-answers", detail, caseText, false)
			}
		}
		os.RemoveAll(dir)
		if wi%3 == 0 {
			if err := c09ProjectMode(res, wi, reps); err != nil {
				return err
			}
		}
		if wi%6 == 1 {
			if err := c09CapWorld(res, wi, reps); err != nil {
				return err
			}
		}
	}
	return nil
}

// project mode (luahelper.json ProjectFiles): the per-entry-file second pass builds its own table of _G globals from the
// files of the project; a _G function assigned in two required files, and a member two files add to a _G table, must
// resolve the same way in every run
var c09ProjectFiles = map[string]string{
	"luahelper.json": "{\"ShowWarnFlag\":1,\"ProjectFiles\":[\"pmain.lua\"]}",
	"pa.lua":         "_G.pfoo = function(x) end\n",
	"pb.lua":         "_G.pfoo = function(x, y) end\n",
	"pc.lua":         "local z = 1\nprint(z)\n",
	"pd.lua":         "local z = 2\nprint(z)\n",
	"pt.lua":         "_G.PGT = {}\n",
	"pu.lua":         "PGT.f = function(x) end\n",
	"pv.lua":         "PGT.f = function(x, y) end\n",
	"pmain.lua":      "require(\"pa\")\nrequire(\"pb\")\nrequire(\"pc\")\nrequire(\"pd\")\nrequire(\"pt\")\nrequire(\"pu\")\nrequire(\"pv\")\nlocal function run()\n  _G.pfoo(1, 2)\n  _G.PGT.f(1, 2)\nend\nrun()\n",
}

// further project-mode worlds: (1) plain globals of files required two levels down, merged per project; (2) two entry files
// with equally large projects that share a file (which project answers for it); (3) two projects of which only one
// resolves a name to the queried definition (references ask every project)
var c09ProjectWorlds = []c09PWorld{
	{files: c09ProjectFiles, open: "pmain.lua", probes: []c09Probe{{"pmain.lua", 8, 5, "pfoo"}, {"pmain.lua", 9, 9, "PGT.f"}}},
	{files: map[string]string{
		"luahelper.json": "{\"ProjectFiles\":[\"qmain.lua\"],\"ShowWarnFlag\":1}",
		"qmain.lua":      "local function f()\n  qfoo(1, 2)\n  print(qfoo)\nend\nrequire(\"qm1\")\nrequire(\"qm2\")\nf()\n",
		"qm1.lua":        "require(\"qa\")\n", "qm2.lua": "require(\"qb\")\n",
		"qa.lua": "function qfoo(x) end\n", "qb.lua": "function qfoo(x, y) end\n"},
		open: "qmain.lua", probes: []c09Probe{{"qmain.lua", 1, 3, "qfoo"}}},
	{files: map[string]string{
		"luahelper.json": "{\"ProjectFiles\":[\"r1.lua\",\"r2.lua\"],\"ShowWarnFlag\":1}",
		"r1.lua":         "require(\"ra\")\nrequire(\"rshared\")\n", "r2.lua": "require(\"rb\")\nrequire(\"rshared\")\n",
		"rshared.lua": "rfoo(1, 2)\n", "ra.lua": "function rfoo(x) end\n", "rb.lua": "function rfoo(x, y) end\n"},
		open: "rshared.lua", probes: []c09Probe{{"rshared.lua", 0, 1, "rfoo"}}},
	{files: map[string]string{
		"luahelper.json": "{\"ProjectFiles\":[\"s1.lua\",\"s2.lua\"],\"ShowWarnFlag\":1}",
		"s1.lua":         "require(\"sdef\")\nrequire(\"suse\")\nrequire(\"sextra\")\n", "s2.lua": "require(\"sdef\")\nrequire(\"sb\")\nrequire(\"suse\")\n",
		"sdef.lua": "function sfoo(x) end\n", "sb.lua": "function sfoo(x, y) end\n", "suse.lua": "local function f()\n  sfoo(1)\nend\nf()\n",
		"sextra.lua": "require(\"sextra2\")\n", "sextra2.lua": "local z = 1\nprint(z)\n"},
		open: "sdef.lua", probes: []c09Probe{{"sdef.lua", 0, 10, "sfoo"}}},
	// (5) a file two entry files require, whose diagnostics differ between the two projects (one defines _G.tG1 before the
	// require, the other does not): the file shows the union, whichever project is visited first
	{files: map[string]string{
		"luahelper.json": "{\"BaseDir\":\"./\",\"ProjectFiles\":[\"t1.lua\",\"t2.lua\"],\"ShowWarnFlag\":1}",
		"t1.lua":         "_G.tG1 = 1\nrequire(\"tshared\")\n", "t2.lua": "require(\"tshared\")\n",
		"tshared.lua": "print(tG1, tnodef2)\n"},
		open: "tshared.lua", probes: []c09Probe{{"tshared.lua", 0, 7, "tG1"}},
		expect: map[string][]string{"diag:tshared.lua": {"var not define: tG1", "tnodef2. <process entry file: t1.lua>"}}},
	// (6) two variables declared on the line below a ---@class: the class belongs to the first one (column order), not to
	// whichever the map iteration yields first
	{files: map[string]string{
		"luahelper.json": "{\"ProjectFiles\":[\"u.lua\"],\"ShowWarnFlag\":1}",
		"u.lua":          "---@class UFoo\nlocal ua, ub = { x = 1 }, { y = 2 }\n---@type UFoo\nlocal uf\nprint(uf.x, uf.y)\n"},
		open: "u.lua", probes: []c09Probe{{"u.lua", 4, 9, "uf.x"}, {"u.lua", 4, 15, "uf.y"}},
		expect: map[string][]string{"def:uf.x": {"u.lua:2:17"}}},
}

type c09Probe struct {
	file      string
	line, col int
	tag       string
}
type c09PWorld struct {
	files  map[string]string
	open   string
	probes []c09Probe
	// observation key -> text that every run's observation must contain (deterministic AND right)
	expect map[string][]string
}

func c09ProjectMode(res *lib.Result, wi, reps int) error {
	for k, w := range c09ProjectWorlds {
		if err := c09ProjectWorld(res, wi*10+k, reps, w); err != nil {
			return err
		}
	}
	return nil
}

func c09ProjectWorld(res *lib.Result, wi, reps int, world c09PWorld) error {
	c09ProjectFiles := world.files
	var worldText strings.Builder
	var names []string
	for f := range c09ProjectFiles {
		names = append(names, f)
	}
	sort.Strings(names)
	for _, f := range names {
		worldText.WriteString("-- " + f + "\n" + c09ProjectFiles[f])
	}
	var first map[string]string
	for rep := 0; rep < reps*2; rep++ {
		runtime.GOMAXPROCS([]int{1, 2, 16}[rep%3])
		dir := lib.ScratchDir(fmt.Sprintf("c09p%d", wi))
		if err := lib.WriteWorkspace(dir, c09ProjectFiles); err != nil {
			return err
		}
		caseText := fmt.Sprintf("project mode, run %d (GOMAXPROCS %d)\n%s", rep, []int{1, 2, 16}[rep%3], worldText.String())
		lib.Breadcrumb("C09 " + caseText)
		sess, err := lib.StartSession(dir, lib.AllChecksOptions())
		if err != nil {
			os.RemoveAll(dir)
			res.AddViolation("crash-or-timeout", err.Error(), caseText, false)
			return nil
		}
		obs := map[string]string{}
		sess.DidOpen(world.open, c09ProjectFiles[world.open])
		sess.Sync()
		for f, ds := range sess.DiagView() {
			var l []string
			for _, d := range ds {
				l = append(l, fmt.Sprintf("%d:%d %s", d.Range.Start.Line, d.Range.Start.Character, d.Message))
			}
			sort.Strings(l)
			obs["diag:"+f] = strings.Join(l, " | ")
		}
		for _, kp := range world.probes {
			if locs, err := sess.Definition(kp.file, kp.line, kp.col); err == nil {
				var l []string
				for _, x := range locs {
					l = append(l, sess.Rel(x.URI)+":"+locOfRange(x.Range))
				}
				obs["def:"+kp.tag] = strings.Join(l, " ")
			}
			if hov, err := sess.Hover(kp.file, kp.line, kp.col); err == nil {
				obs["hover:"+kp.tag] = hov
			}
			if locs, err := sess.References(kp.file, kp.line, kp.col, true); err == nil {
				var l []string
				for _, x := range locs {
					l = append(l, sess.Rel(x.URI)+":"+locOfRange(x.Range))
				}
				sort.Strings(l)
				obs["refs:"+kp.tag] = strings.Join(l, " ")
			}
		}
		sess.Close()
		os.RemoveAll(dir)
		res.Dist("runs.project-mode")
		ekeys := make([]string, 0, len(world.expect))
		for k := range world.expect {
			ekeys = append(ekeys, k)
		}
		sort.Strings(ekeys)
		for _, k := range ekeys {
			for _, want := range world.expect[k] {
				if !strings.Contains(obs[k], want) {
					res.AddViolation("impl-vs-spec", fmt.Sprintf("%s = %q does not contain %q", k, obs[k], want), caseText, false)
				}
			}
		}
		if first == nil {
			first = obs
			res.Count(worldText.String()+fmt.Sprint(wi), true)
			continue
		}
		var keys []string
		for k := range first {
			keys = append(keys, k)
		}
		for k := range obs {
			if _, ok := first[k]; !ok {
				keys = append(keys, k)
			}
		}
		sort.Strings(keys)
		for _, k := range keys {
			if first[k] != obs[k] {
				res.AddViolation("inconsistent-answers", fmt.Sprintf("%s differs between two runs on the same workspace:\n  run 0: %s\n  run %d: %s", k, first[k], rep, obs[k]), caseText, false)
			}
		}
	}
	return nil
}

// more equally scored matches than the 200-symbol cap of workspace/symbol: which 200 are answered must not depend on
// the order in which files and map entries are visited
func c09CapWorld(res *lib.Result, wi, reps int) error {
	files := map[string]string{}
	for f := 0; f < 3; f++ {
		var ls []string
		for k := 0; k < 90; k++ {
			ls = append(ls, fmt.Sprintf("ab%c%03d = %d", 'x'+f, k, k))
		}
		files[fmt.Sprintf("cap%d.lua", f)] = strings.Join(ls, "\n") + "\n"
	}
	// … and ONE file with more matches than the cap (the worker that serves it cuts its own list before the merge): the
	// exact name must survive both cuts
	{
		var ls []string
		ls = append(ls, "abconf = 1")
		for k := 0; k < 300; k++ {
			ls = append(ls, fmt.Sprintf("my_abconf_value_%03d = %d", k, k))
		}
		files["capbig.lua"] = strings.Join(ls, "\n") + "\n"
	}
	caseText := "three files cap0.lua, cap1.lua, cap2.lua with 90 globals abxNNN / abyNNN / abzNNN each, capbig.lua with abconf and 300 globals my_abconf_value_NNN; workspace/symbol \"ab\" and \"abconf\" (more equally scored matches than the cap of 200)"
	var first string
	for rep := 0; rep < reps; rep++ {
		runtime.GOMAXPROCS([]int{1, 2, 16}[rep%3])
		dir := lib.ScratchDir(fmt.Sprintf("c09c%d", wi))
		if err := lib.WriteWorkspace(dir, files); err != nil {
			return err
		}
		lib.Breadcrumb("C09 " + caseText)
		sess, err := lib.StartSession(dir, lib.AllChecksOptions())
		if err != nil {
			os.RemoveAll(dir)
			res.AddViolation("crash-or-timeout", err.Error(), caseText, false)
			return nil
		}
		ws, err := sess.WorkspaceSymbol("ab")
		var ws2 []lib.SymbolInfo
		if err == nil {
			ws2, err = sess.WorkspaceSymbol("abconf")
		}
		sess.Close()
		os.RemoveAll(dir)
		if err != nil {
			res.AddViolation("crash-or-timeout", err.Error(), caseText, false)
			return nil
		}
		var sl []string
		for _, y := range ws {
			sl = append(sl, y.Name)
		}
		sort.Strings(sl)
		var sl2 []string
		exact := false
		for _, y := range ws2 {
			sl2 = append(sl2, y.Name)
			exact = exact || y.Name == "abconf"
		}
		sort.Strings(sl2)
		if !exact {
			res.AddViolation("impl-vs-spec", fmt.Sprintf("workspace/symbol \"abconf\" (%d answers) does not contain the global abconf itself", len(ws2)), caseText, false)
			break
		}
		got := strings.Join(sl, " ") + " || " + strings.Join(sl2, " ")
		res.Dist("runs.symbol-cap")
		if rep == 0 {
			first = got
			res.Count(caseText+fmt.Sprint(wi), true)
		} else if got != first {
			res.AddViolation("inconsistent-answers", fmt.Sprintf("workspace/symbol \"ab\" answers a different set of %d symbols in run %d than in run 0", len(sl), rep), caseText+"\nrun 0: "+first+"\nrun "+fmt.Sprint(rep)+": "+got, false)
			break
		}
	}
	return nil
}
