package main

import (
	"encoding/json"
	"fmt"
	"io/ioutil"
	"os"
	"os/exec"
	"path/filepath"
	"regexp"
	"runtime"
	"sort"
	"strings"
	"time"

	"luahelper-lsp/langserver/check/compiler/parser"
	"verifharness/lib"
)

func init() {
	register("C01", runC01)
	register("C01child", runC01Child)
}

// ---------------------------------------------------------------------------------------------------
// scenarios: a deterministic function of (seed, index)

type c01Scenario struct {
	kind  string
	files map[string]string // workspace
	open  string            // file to open and sweep
	edits []string          // successive full texts sent as didChange (unsaved partial edits)
	class string            // finding class the scenario is built to probe ("" = none)
}

var c01Methods = []string{"textDocument/hover", "textDocument/definition", "textDocument/references", "textDocument/completion",
	"textDocument/signatureHelp", "textDocument/documentHighlight", "textDocument/rename"}

func c01Valid(r *lib.Rng, n int) string {
	_, toks := genProgram(r, n)
	return renderTokens(r, toks)
}

var c01SpecialLines = []string{"local x = _G", "print(_G", "_G.", "_G.x", "_G[", "_G[\"", "local s = self", "self.", "self:", "require(", "require(\"", "require(\"a.", "dofile(\"",
	"---@", "---@type ", "---@param ", "---@field ", "--", "...", "a.b.c.", "a:", "(\"s\"):", "#", "::l::", "goto l", "local t = {", "t[#t+1] = ", "x = x..", "x = #", "f(function()",
	"(\"_G\").x = 1", "(\"_G\").", "(\"s\").y = 2", "(\"_G.a\").z = 3", "function ff() (\"_G\").w = 4 end", "(\"_G\")[1] = 5", "(1).x = 2", "(nil).x = 3",
	"local _ENV = ", "_ENV.", "string.", "string.format(", "math.", "io.", "os.", "table.insert(", "coroutine.", "package.", "debug.", "utf8.", "local function", "function t.", "function t:", "for i = ", "for k, v in ",
	// text cut inside a multi-byte character (a string, a comment that documents a function, an illegal token)
	"x = \"\xE4\xB8\"", "local s = '\xF0\x9F\x98'", "y = \"\xE4\"", "-- \xE4\xB8\nfunction foo() end\nfoo()", "-- caf\xC3\nlocal function bar() end\nbar()", "z = \xE4\xB8", "--[[ \xF0\x9F ]] local w = 1"}

func genC01Scenario(seed int64, idx int) c01Scenario {
	r := lib.NewRng(uint64(seed)).Fork(uint64(idx))
	sc := c01Scenario{files: map[string]string{}, open: "main.lua"}
	switch idx % 9 {
	case 0: // token soup / raw bytes
		sc.kind = "lua-soup"
		switch r.Intn(3) {
		case 0:
			sc.files["main.lua"] = genSoup(r, 60)
		case 1:
			sc.files["main.lua"] = string(genRawBytes(r, 200))
		default:
			// half-typed lines around the names and characters the handlers treat specially
			var ls []string
			for k := 0; k < 14; k++ {
				ls = append(ls, c01SpecialLines[r.Intn(len(c01SpecialLines))])
			}
			sc.files["main.lua"] = strings.Join(ls, "\n")
		}
		sc.files["other.lua"] = genSoup(r, 30)
	case 1: // near-valid programs: mutated and truncated
		sc.kind = "lua-mutant"
		_, toks := genProgram(r, 5)
		for k := 1 + r.Intn(3); k > 0 && len(toks) > 0; k-- {
			toks, _ = mutateTokens(r, toks)
		}
		src := renderTokens(r, toks)
		if r.Chance(1, 3) && len(src) > 2 {
			src = src[:r.Intn(len(src))]
		}
		sc.files["main.lua"] = src
	case 2: // annotation soup
		sc.kind = "annot-soup"
		var ls []string
		g := &aGen{r: r}
		for i := 0; i < 4+r.Intn(8); i++ {
			line, _ := g.line()
			if r.Chance(1, 2) {
				toks := strings.Fields(line)
				k := r.Intn(len(toks))
				toks[k] = []string{"|", "[", "<", ")", ",", "?", "(", "fun", "table<", ":", "@", "'", "..."}[r.Intn(13)]
				line = strings.Join(toks, " ")
			}
			ls = append(ls, "---@"+line)
			if r.Chance(1, 2) {
				ls = append(ls, fmt.Sprintf("local v%d = {}", i))
			}
		}
		if r.Chance(1, 2) {
			ls = append(ls, "---@enum start", "local E = {", "  A = 1,", "  B = (2),", "  C = ((3)),", "}", "---@enum end")
		}
		if r.Chance(1, 2) {
			// enum values that are parenthesised names / calls (the parentheses survive parsing), compared pairwise by the
			// duplicate-value check, which only a configuration file can switch on
			ls = append(ls, "---@enum start", "A2 = (v0)", "A3 = (v0)", "A4 = ((v1))", "A5 = (print(1))", "A6 = (v0.x)", "---@enum end")
		}
		// fixed lines (every tier): the ---@type forms with the enum / const words in every order
		ls = append(ls, "---@type enum const table", "local ColorA = { Red = 1 }", "---@type const enum table", "local ColorB = { Red = 1 }", "---@type enum table", "local ColorC = { Red = 1 }",
			"---@type const number", "local KConst = 1", "---@type enum const", "local ColorD = {}", "print(ColorA.Red, ColorB.Red, ColorC, KConst, ColorD)")
		ls = append(ls, "print(v0, v1, v2)")
		sc.files["main.lua"] = strings.Join(ls, "\n") + "\n"
		if r.Chance(1, 2) {
			sc.files["luahelper.json"] = []string{"{}", "{\"OpenErrorTypes\":[22,23,24,25,26,27,28,29]}"}[r.Intn(2)]
		}
	case 3: // cyclic classes / aliases with indexed access
		sc.kind = "annot-cycles"
		w := genC15World(r)
		files, _ := w.render()
		for f, t := range files {
			sc.files[f] = t
		}
		var extra []string
		for _, v := range w.vars {
			extra = append(extra, fmt.Sprintf("print(%s.x, %s[1], %s.a.b)", v.name, v.name, v.name))
		}
		sc.files["main.lua"] += "---@alias CycA CycB\n---@alias CycB CycA[]\n---@type CycA\nlocal cyc = {}\nprint(cyc[1], cyc.k, cyc[1][2])\n" + strings.Join(extra, "\n") + "\n"
		// a function-type alias declared in ANOTHER file, used through a call
		sc.files["al.lua"] = "---@class AlK\n---@field k1 number\n\n---@alias HandlerZ fun():AlK\n---@alias HandlerY HandlerZ\n"
		sc.files["main.lua"] += "---@type HandlerZ\nlocal hz = nil\nprint(hz().k1, hz())\n---@type HandlerY\nlocal hy = nil\nprint(hy().k1)\n"
		// the checks that walk class hierarchies (field of class, assignment type) and the per-entry-file second pass are
		// switched on by a configuration file only: table literals and member reads typed by (possibly cyclic) classes, a
		// method named like a non-function field
		c0 := w.classes[0]
		f0 := c0.decls[0].fields[0]
		sc.files["main.lua"] += "---@class CyA : CyB\n---@field a number\n---@class CyB : CyA\n---@field b number\n---@type CyA\nlocal cya = { zzz = 1 }\n---@type CyB\nlocal cyb = {}\nprint(cya.zzz, cyb.yyy)\n" +
			"---@param p CyA\nlocal function cyf(p) print(p.zzz) end\nprint(cyf)\n" +
			"---@type " + c0.name + "\n" + c0.name + "tab = {}\nfunction " + c0.name + "tab:" + f0 + "(p) return p end\nfunction " + c0.name + "tab." + f0 + "(q) return q end\n"
		// a call, inside a function body, of a global function of which only SOME parameters are annotated (the call-argument
		// type check, switched on by a configuration file only, loads the annotated types under a package mutex)
		sc.files["main.lua"] += "---@param count number\nfunction addz(count, label)\n  return count, label\nend\nfunction mainz()\n  addz(1, \"x\")\n  addz(\"oops\", \"y\")\nend\n"
		switch (idx / 9) % 6 { // half of these scenarios stay in client-settings mode (a fixed rotation: every tier meets every case)
		case 0:
			sc.files["luahelper.json"] = "{\"OpenErrorTypes\":[22,23,24,25,26,27,28,29]}"
		case 1:
			sc.files["luahelper.json"] = "{\"ProjectFiles\":[\"main.lua\"],\"OpenErrorTypes\":[22,26]}"
		case 2:
			sc.files["luahelper.json"] = "{\"ProjectFiles\":[\"main.lua\",\"a.lua\"]}"
		}
	case 4: // configuration file mode
		sc.kind = "config"
		names := []string{"import", "im(port", "a+*", "[x", "req\\", "ok"}
		cfg := map[string]interface{}{
			"BaseDir": "./", "ShowWarnFlag": r.Intn(2), "ReferMatchPathFlag": r.Intn(2), "PathSeparator": []string{".", "/", "", "::"}[r.Intn(4)],
			"IgnoreModules": []string{"hive", "("}, "IgnoreFileOrFloder": []string{"tmp/", "[", "*.lua"},
			"ReferFrameFiles": []map[string]interface{}{{"Name": names[r.Intn(len(names))], "Type": r.Intn(3), "SuffixFlag": r.Intn(2)}},
			"ProtocolVars":    []string{"s2s", "a.b"}, "IgnoreErrorTypes": []int{r.Intn(30), -1},
			"ProjectFiles":         []string{"main.lua", "nope.lua"},
			"IgnoreFileErr":        []string{[]string{"tmp/", "[", "a(b", "*x"}[r.Intn(4)]},
			"IgnoreFileErrTypes":   []map[string]interface{}{{"File": []string{"main.lua", "m(", "+"}[r.Intn(3)], "Types": []int{1, 2}}},
			"IgnoreFileVars":       []map[string]interface{}{{"File": "main.lua", "Vars": []string{"x", "("}}},
			"IgnoreLocalNoUseVars": []string{"_", "["},
		}
		b, _ := json.Marshal(cfg)
		txt := string(b)
		if r.Chance(1, 4) {
			txt = txt[:r.Intn(len(txt))] // invalid JSON
		}
		sc.files["luahelper.json"] = txt
		sc.files["main.lua"] = "local m = require(\"other\")\nim(port(\"other.lua\")\nimport(\"other.lua\")\nprint(m, s2s.x)\n"
		sc.files["other.lua"] = c01Valid(r, 3)
	case 5: // partial edits of a valid program
		sc.kind = "edits"
		src := c01Valid(r, 5)
		sc.files["main.lua"] = src
		cur := src
		for k := 0; k < 4; k++ {
			if len(cur) < 2 {
				break
			}
			a := r.Intn(len(cur))
			b := a + r.Intn(len(cur)-a)
			ins := []string{"", "(", "end", "local ", "\"", "--[[", "function", "\n", "{", ".."}[r.Intn(10)]
			cur = cur[:a] + ins + cur[b:]
			sc.edits = append(sc.edits, cur)
		}
	case 6: // deep nesting, moderate depth
		sc.kind = "deep-nesting"
		d := []int{50, 300, 1500}[r.Intn(3)]
		var s string
		switch r.Intn(6) {
		case 0:
			s = "local x = " + strings.Repeat("(", d) + "1" + strings.Repeat(")", d)
		case 1:
			s = "local x = " + strings.Repeat("{", d) + strings.Repeat("}", d)
		case 2:
			s = "local x = " + strings.Repeat("not ", d) + "true"
		case 3:
			s = "local x = " + strings.Repeat("a .. ", d) + "a"
		case 4:
			s = strings.Repeat("do ", d) + strings.Repeat("end ", d)
		default:
			s = "local f = " + strings.Repeat("function() return ", d) + "1" + strings.Repeat(" end", d)
		}
		sc.files["main.lua"] = s + "\nprint(x)\n"
		if r.Chance(1, 3) {
			// wide instead of deep: several hundred names in one declaration / assignment list, initialised by one call
			var ns []string
			nn := []int{255, 256, 257, 300, 520}[r.Intn(5)]
			for i := 1; i <= nn; i++ {
				ns = append(ns, fmt.Sprintf("v%d", i))
			}
			ret := "---@return number, string\n"
			if r.Chance(1, 2) {
				ret = ""
			}
			sc.files["main.lua"] = ret + "local function wf() return 1 end\nlocal " + strings.Join(ns, ", ") + " = wf()\nprint(v256)\nprint(v" + fmt.Sprint(nn) + ")\nlocal y = v256\nprint(y.k)\n" +
				strings.Join(ns, ", ") + " = wf()\nprint(v255)\n"
		}
	case 8: // more files than worker goroutines (NumCPU+2): every dispatch loop has to refill its workers
		sc.kind = "many-files"
		nf := runtime.NumCPU() + 3 + r.Intn(30)
		sc.files["main.lua"] = "gvar = 1\nfunction gfun(a) return a end\nGT = { k = 1 }\nprint(gvar, gfun(2), GT.k)\n" +
			// symbols longer than the 63 / 127 byte limits of the workspace-symbol matcher (queried by name in the sweep)
			"function player_inventory_synchronisation_manager_refresh_all_slots_and_notify_client_observers(slot)\n  return slot\nend\n" +
			strings.Repeat("very_", 30) + "long_global = 1\n"
		for i := 0; i < nf; i++ {
			sc.files[fmt.Sprintf("f%02d.lua", i)] = fmt.Sprintf("print(gvar, gfun(%d), GT.k)\nlocal function l%d() return gvar end\nprint(l%d)\n", i, i, i)
		}
		if (idx/9)%2 == 0 {
			// project mode: every fNN.lua is an entry file of its own, all projects require a file that declares a _G table and
			// one that adds several thousand members to it (the per-project second passes run in parallel and share the
			// first-pass symbol of that table)
			var entries, ext []string
			for i := 0; i < nf; i++ {
				name := fmt.Sprintf("f%02d.lua", i)
				entries = append(entries, "\""+name+"\"")
				sc.files[name] = "require(\"def\")\nrequire(\"ext\")\nprint(gtab.m1, gvar)\n"
			}
			for i := 0; i < 3000; i++ {
				ext = append(ext, fmt.Sprintf("gtab.m%d = %d", i, i))
			}
			sc.files["def.lua"] = "_G.gtab = { one = 1 }\n"
			sc.files["ext.lua"] = strings.Join(ext, "\n") + "\n"
			sc.files["luahelper.json"] = "{\"ShowWarnFlag\":1,\"ProjectFiles\":[" + strings.Join(entries, ",") + "]}"
		}
	default: // file events on malformed files
		sc.kind = "file-events"
		// (fixed tail: table-constructor keys named like the variable that owns the table, with another definition of that
		// variable elsewhere — the retry loop of go-to-definition once never ended on these)
		sc.files["main.lua"] = c01Valid(r, 3) + "if zq then\ntq = {tq=1}\nend\ntq = nil\nlocal aq, aq = {aq=1}, 2\nuq = 1\n_G = {uq={uq=1}}\nrepeat\nbq, bq.bq.bq = print()\nuntil zq\nwq.wq, bq = {bq=1}\n"
		sc.files["a.lua"] = genSoup(r, 40)
		sc.files["b.lua"] = c01Valid(r, 3)
	}
	return sc
}

var c01LongIdent = regexp.MustCompile(`[A-Za-z_][A-Za-z0-9_]{40,}`)

// runScenario drives the real server; any panic kills this (child) process — that is the point.
func runC01Scenario(sc c01Scenario, idx int, res *lib.Result) {
	dir := lib.ScratchDir(fmt.Sprintf("c01s%d", idx))
	defer os.RemoveAll(dir)
	if sc.kind == "lua-mutant" || sc.kind == "lua-soup" {
		// every prefix of every Lua file through the real parser (the text as it is while being typed): an
		// input cut inside a string, an escape, a long bracket or a numeral must give errors, not a crash
		for name, src := range sc.files {
			if !strings.HasSuffix(name, ".lua") {
				continue
			}
			for i := 0; i <= len(src) && i <= 1500; i++ {
				lib.Breadcrumb(fmt.Sprintf("C01 scenario %d (%s): the real parser on the first %d bytes of %s:\n%s", idx, sc.kind, i, name, src[:i]))
				if _, _, rec := lib.ParseDump([]byte(src[:i])); rec != nil {
					// the parser's recover() swallowed an internal fault: the analysis of the file is silently abandoned
					fmt.Printf("FAULT %d the parser recovered from %q on the first %d bytes of %s\n", idx, fmt.Sprint(rec), i, name)
					return
				}
			}
		}
	}
	lib.WriteWorkspace(dir, sc.files)
	// the same fault inside the server (files analysed at start-up, on open, on every edit)
	prevHook := parser.VerifRecovered
	parser.VerifRecovered = func(v interface{}) {
		fmt.Printf("FAULT %d the parser recovered from %q while the server analysed a file\n", idx, fmt.Sprint(v))
	}
	defer func() { parser.VerifRecovered = prevHook }()
	opts := lib.AllChecksOptions()
	sess, err := lib.StartSession(dir, opts)
	if err != nil {
		if strings.Contains(err.Error(), "TIMEOUT") {
			fmt.Printf("HANG %d start: %v\n", idx, err)
		} else {
			fmt.Printf("INITERR %d %v\n", idx, err) // the server refused the configuration with an error answer: alive
		}
		return
	}
	defer sess.Close()
	sess.Timeout = 15 * time.Second
	text := sc.files[sc.open]
	sess.DidOpen(sc.open, text)
	sweep := func(t string) bool {
		lines := strings.Split(t, "\n")
		for ln, l := range lines {
			// the first 14 lines and the last 40 (scenario families append their special constructs at the end)
			if ln >= 14 && ln < len(lines)-40 {
				continue
			}
			cols := []int{0, len(l) / 2, len(l)}
			if len(l) > 6 {
				cols = append(cols, 3, len(l)-2)
			}
			if k := strings.Index(l, ")."); k >= 0 {
				cols = append(cols, k+2, k+3) // a member reached through a call
			}
			for k := 0; k < len(l) && len(cols) < 12; k++ {
				if l[k] == '{' {
					cols = append(cols, k+1) // the first key of a table constructor
				}
			}
			for _, c := range cols {
				for _, m := range c01Methods {
					params := map[string]interface{}{"textDocument": map[string]interface{}{"uri": sess.URI(sc.open)},
						"position": map[string]interface{}{"line": ln, "character": c}}
					if m == "textDocument/references" {
						params["context"] = map[string]interface{}{"includeDeclaration": true}
					}
					if m == "textDocument/rename" {
						params["newName"] = "zz"
					}
					if _, err := sess.Call(m, params); err != nil && strings.Contains(err.Error(), "TIMEOUT") {
						fmt.Printf("HANG %d %s at %d:%d: %v\n", idx, m, ln, c, err)
						return false
					}
					res.Evaluations++
				}
			}
		}
		// positions that do not exist: a line past the last one (a client whose view of the document is ahead of or
		// behind the server's sends them), for requests and for an edit range
		for _, ln := range []int{len(lines), len(lines) + 3} {
			for _, c := range []int{0, 7} {
				for _, m := range c01Methods {
					params := map[string]interface{}{"textDocument": map[string]interface{}{"uri": sess.URI(sc.open)},
						"position": map[string]interface{}{"line": ln, "character": c}}
					if m == "textDocument/references" {
						params["context"] = map[string]interface{}{"includeDeclaration": true}
					}
					if m == "textDocument/rename" {
						params["newName"] = "zz"
					}
					lib.Breadcrumb(fmt.Sprintf("C01 scenario %d (%s): %s at %d:%d, a line past the end of\n%s", idx, sc.kind, m, ln, c, t))
					if _, err := sess.Call(m, params); err != nil && strings.Contains(err.Error(), "TIMEOUT") {
						fmt.Printf("HANG %d %s at %d:%d (past the end): %v\n", idx, m, ln, c, err)
						return false
					}
					res.Evaluations++
				}
			}
		}
		lib.Breadcrumb(fmt.Sprintf("C01 scenario %d (%s): didChange with a range that ends past the last line of\n%s", idx, sc.kind, t))
		sess.DidChange(sc.open, []lib.ContentChange{{Range: &lib.Range{Start: lib.Pos{Line: len(lines) / 2, Character: 0}, End: lib.Pos{Line: len(lines) + 4, Character: 0}}, Text: "x = 1\n"}})
		sess.DidChange(sc.open, []lib.ContentChange{{Text: t}})
		for _, m := range []string{"textDocument/documentSymbol", "textDocument/documentColor"} {
			if _, err := sess.Call(m, map[string]interface{}{"textDocument": map[string]interface{}{"uri": sess.URI(sc.open)}}); err != nil && strings.Contains(err.Error(), "TIMEOUT") {
				fmt.Printf("HANG %d %s: %v\n", idx, m, err)
				return false
			}
		}
		// workspace/symbol: a short query, the empty one, and every long identifier of the text (whole and cut at the limits of
		// the matcher's tables: 63 / 64 / 65 / 127 / 128 bytes)
		queries := []string{"a", ""}
		for k, id := range c01LongIdent.FindAllString(t, -1) {
			if k >= 3 {
				break
			}
			queries = append(queries, id)
			for _, n := range []int{63, 64, 65, 127, 128} {
				if len(id) > n {
					queries = append(queries, id[:n])
				}
			}
		}
		for _, q := range queries {
			lib.Breadcrumb(fmt.Sprintf("C01 scenario %d (%s): workspace/symbol with the %d-byte query %q", idx, sc.kind, len(q), q))
			if _, err := sess.Call("workspace/symbol", map[string]interface{}{"query": q}); err != nil && strings.Contains(err.Error(), "TIMEOUT") {
				fmt.Printf("HANG %d workspace/symbol: %v\n", idx, err)
				return false
			}
		}
		return true
	}
	if !sweep(text) {
		return
	}
	for _, e := range sc.edits {
		sess.DidChange(sc.open, []lib.ContentChange{{Text: e}})
		if !sweep(e) {
			return
		}
	}
	if sc.kind == "file-events" || sc.kind == "edits" {
		last := text
		if len(sc.edits) > 0 {
			last = sc.edits[len(sc.edits)-1]
		}
		os.WriteFile(filepath.Join(dir, sc.open), []byte(last), 0o644)
		sess.DidSave(sc.open, last)
		os.Remove(filepath.Join(dir, "b.lua"))
		os.WriteFile(filepath.Join(dir, "c.lua"), []byte("local x = (\n"), 0o644)
		sess.Watched(map[string]int{"b.lua": 3, "c.lua": 1, "a.lua": 2})
		sess.DidClose(sc.open)
		sess.DidOpen(sc.open, last)
		sweep(last)
	}
	if err := sess.Sync(); err != nil && strings.Contains(err.Error(), "TIMEOUT") {
		fmt.Printf("HANG %d sync: %v\n", idx, err)
	}
}

// child: runs the scenarios idx in [from, to) except the skipped ones; writes the index being run to a
// progress file first, so that the parent knows which scenario killed the process
func runC01Child(res *lib.Result, tier string, seed int64, args []string) error {
	if xs := os.Getenv("C01_EXTREME"); xs != "" {
		var x int
		fmt.Sscanf(xs, "%d", &x)
		const d = 1000000
		var src string
		switch x {
		case 0:
			src = "local x = " + strings.Repeat("(", d) + "1" + strings.Repeat(")", d) + "\n"
		case 1:
			src = "if a then " + strings.Repeat("elseif b then ", d) + "end\n"
		default:
			src = "local x = a" + strings.Repeat(".b", d) + "\n"
		}
		sc := c01Scenario{kind: "extreme", files: map[string]string{"main.lua": src}, open: "main.lua"}
		dir := lib.ScratchDir("c01x")
		defer os.RemoveAll(dir)
		lib.WriteWorkspace(dir, sc.files)
		sess, err := lib.StartSession(dir, lib.AllChecksOptions())
		if err != nil {
			fmt.Printf("HANG -1 start: %v\n", err)
			return nil
		}
		sess.Timeout = 20 * time.Second
		sess.DidOpen("main.lua", src)
		if _, err := sess.Hover("main.lua", 0, 7); err != nil {
			fmt.Printf("HANG -1 hover: %v\n", err)
		}
		sess.Close()
		return nil
	}
	var from, to int
	fmt.Sscanf(os.Getenv("C01_RANGE"), "%d:%d", &from, &to)
	skip := map[int]bool{}
	for _, s := range strings.Split(os.Getenv("C01_SKIP"), ",") {
		var k int
		if n, _ := fmt.Sscanf(s, "%d", &k); n == 1 {
			skip[k] = true
		}
	}
	progress := os.Getenv("C01_PROGRESS")
	for idx := from; idx < to; idx++ {
		if skip[idx] {
			continue
		}
		ioutil.WriteFile(progress, []byte(fmt.Sprint(idx)), 0o644)
		sc := genC01Scenario(seed, idx)
		runC01Scenario(sc, idx, res)
		fmt.Printf("DONE %d %s\n", idx, sc.kind)
	}
	ioutil.WriteFile(progress, []byte("-1"), 0o644)
	return nil
}

func c01Describe(sc c01Scenario) string {
	var b strings.Builder
	fmt.Fprintf(&b, "scenario kind %s: open %s and send hover / definition / references / completion / signatureHelp / documentHighlight / rename at the start, middle and end of each of its first lines, then documentSymbol, documentColor, workspace/symbol", sc.kind, sc.open)
	var fs []string
	for f := range sc.files {
		fs = append(fs, f)
	}
	sort.Strings(fs)
	for _, f := range fs {
		fmt.Fprintf(&b, "\n---- %s ----\n%s", f, lib.Trunc(sc.files[f], 3000))
	}
	for i, e := range sc.edits {
		fmt.Fprintf(&b, "\n---- didChange %d (full text) ----\n%s", i+1, lib.Trunc(e, 1500))
	}
	return b.String()
}

func runC01(res *lib.Result, tier string, seed int64, args []string) error {
	n, batch := 192, 24
	if tier == "thorough" {
		n, batch = 2000, 40
	}
	res.Rule = "scenarios run against the real server in child processes (a crash kills only the child; the parent records the scenario that was running and goes on): token soup and raw bytes, mutated and truncated programs (and EVERY prefix of those files through the real parser), annotation soup with enum blocks, cyclic class / alias worlds with indexed access, random luahelper.json files (regex metacharacters, invalid JSON, odd separators), partial unsaved edits, deep nesting (50-1500 levels), file events on malformed files, workspaces with more files than worker goroutines; a fault swallowed by the parser's recover() (hook VerifRecovered) is reported as an abandoned analysis; in every scenario hover, definition, references, completion, signatureHelp, documentHighlight and rename are sent at 3-7 columns of each of the first 14 and last 40 lines, plus documentSymbol, documentColor and workspace/symbol; a request that does not answer within 15 s is a hang; non-trivial = every scenario; distinct by scenario"
	work := lib.ScratchDir("c01")
	defer os.RemoveAll(work)
	kinds := map[string]int{}
	faulted := map[int]bool{}
	for from := 0; from < n; from += batch {
		to := from + batch
		if to > n {
			to = n
		}
		var skipped []string
		for attempt := 0; attempt < batch+1; attempt++ {
			progress := filepath.Join(work, "progress")
			os.Remove(progress)
			cmd := exec.Command(os.Args[0], "C01child", "--tier", tier, "--seed", fmt.Sprint(seed))
			cmd.Env = append(os.Environ(), fmt.Sprintf("C01_RANGE=%d:%d", from, to), "C01_SKIP="+strings.Join(skipped, ","), "C01_PROGRESS="+progress,
				"VERIF_WORK="+work, "GOMEMLIMIT=3GiB")
			out, err := cmd.CombinedOutput()
			for _, l := range strings.Split(string(out), "\n") {
				if strings.HasPrefix(l, "DONE ") {
					f := strings.Fields(l)
					kinds[f[2]]++
					res.Count(fmt.Sprintf("%d/%s", seed, f[1]), true)
					res.Dist("scenario." + f[2])
				}
				if strings.HasPrefix(l, "INITERR ") {
					res.Dist("initialize-answered-with-error")
				}
				if strings.HasPrefix(l, "FAULT ") {
					var idx int
					fmt.Sscanf(l, "FAULT %d", &idx)
					if !faulted[idx] {
						faulted[idx] = true
						res.AddViolation("internal-fault", "the analysis of a file was silently abandoned: "+l, c01Describe(genC01Scenario(seed, idx)), false)
					}
				}
				if strings.HasPrefix(l, "HANG ") {
					var idx int
					fmt.Sscanf(l, "HANG %d", &idx)
					sc := genC01Scenario(seed, idx)
					res.AddViolation("crash-or-timeout", "a request was not answered in time: "+l, c01Describe(sc), false)
				}
			}
			if err == nil {
				break
			}
			// the child died: which scenario?
			b, _ := ioutil.ReadFile(progress)
			var idx int
			if k, _ := fmt.Sscanf(string(b), "%d", &idx); k != 1 || idx < 0 {
				res.AddViolation("harness-error", fmt.Sprintf("child failed outside a scenario: %v\n%s", err, lib.Trunc(string(out), 2000)), "", true)
				break
			}
			sc := genC01Scenario(seed, idx)
			tail := string(out)
			if i := strings.Index(tail, "fatal error"); i >= 0 {
				tail = tail[i:]
			} else if i := strings.Index(tail, "panic:"); i >= 0 {
				tail = tail[i:]
			}
			res.AddViolation("crash-or-timeout", "the server process died: "+lib.Trunc(tail, 1500), c01Describe(sc), false)
			skipped = append(skipped, fmt.Sprint(idx))
		}
	}
	res.Extra["scenario_kinds"] = kinds
	{
		// extreme inputs (finding class K1): each in its own child, a crash or a stall is expected; the quick tier
		// runs the first one (the canonical replay of the recorded finding), the thorough tier all three
		nExt := 1
		if tier == "thorough" {
			nExt = 3
		}
		for x := 0; x < nExt; x++ {
			progress := filepath.Join(work, "progress")
			cmd := exec.Command(os.Args[0], "C01child", "--tier", tier, "--seed", fmt.Sprint(seed))
			cmd.Env = append(os.Environ(), fmt.Sprintf("C01_EXTREME=%d", x), "C01_PROGRESS="+progress, "VERIF_WORK="+work)
			out, err := cmd.CombinedOutput()
			res.Dist("scenario.extreme")
			if err != nil || strings.Contains(string(out), "HANG ") {
				res.HitKnown("C01-K1", c01K1, fmt.Sprintf("extreme scenario %d (%s): %s", x, c01ExtremeName(x), lib.Trunc(lastLines(string(out), 6), 600)))
				res.Dist("hit.C01-K1")
			}
		}
	}
	return nil
}

const c01K1 = "a Lua file with about a million nested syntactic levels or chained elements ('(' * 1e6, 'if a then elseif b then' * 1e6, 'a.b.b.b…' * 1e6; 2-24 MB of text): the recursive-descent parser / the analysis passes recurse once per level and Go aborts the process with 'fatal error: stack overflow' (not recoverable), or the request does not return within 20 s"

func c01ExtremeName(x int) string {
	return []string{"1,000,000 nested parentheses", "an if with 1,000,000 elseif branches", "a member chain a.b.b… of 1,000,000 links"}[x]
}

func lastLines(s string, n int) string {
	l := strings.Split(strings.TrimSpace(s), "\n")
	for i, x := range l {
		if strings.Contains(x, "fatal error") || strings.Contains(x, "HANG ") {
			if i+n < len(l) {
				return strings.Join(l[i:i+n], "\n")
			}
			return strings.Join(l[i:], "\n")
		}
	}
	if len(l) > n {
		l = l[len(l)-n:]
	}
	return strings.Join(l, "\n")
}
