package main

import (
	"fmt"
	"os"
	"path/filepath"
	"sort"
	"strings"

	"verifharness/lib"

	"luahelper-lsp/langserver"
	"luahelper-lsp/langserver/check/common"
	"luahelper-lsp/langserver/lspcommon"
)

func init() { register("C08", runC08) }

// content variants of file i of the workspace
func c08Variant(i, v int) string {
	other := (i + 1) % 3
	switch v {
	case 0: // clean
		return fmt.Sprintf("local t%d = {}\nreturn t%d\n", i, i)
	case 1: // syntax error
		return fmt.Sprintf("local t%d = {\nreturn t%d\n", i, i)
	case 2: // semantic warning (unused local, self assignment)
		return fmt.Sprintf("local t%d = {}\nlocal unused%d = 1\nt%d = t%d\nreturn t%d\n", i, i, i, i, i)
	case 3: // defines a cross-file global
		return fmt.Sprintf("G%d = { v = %d }\nfunction gf%d(a, b) return a end\n", i, i, i)
	case 4: // uses the global of another file (undefined when that file does not define it)
		return fmt.Sprintf("local x%d = G%d.v\nprint(x%d, gf%d(1, 2, 3))\n", i, other, i, other)
	case 5: // requires another file (the third file lives in a sub-directory and is required by its dotted path)
		mod := fmt.Sprintf("f%d", other)
		if other == 2 {
			mod = "sub.f2"
		}
		if i == 2 {
			// loaded by path: resolved through the file-exists cache, not through the module index
			return fmt.Sprintf("local m%d = dofile(\"f%d.lua\")\nprint(m%d)\n", i, other, i)
		}
		return fmt.Sprintf("local m%d = require(\"%s\")\nprint(m%d)\n", i, mod, i)
	case 9: // defines the cross-file function with another parameter count (the message of the callers' warning changes, not its place)
		return fmt.Sprintf("G%d = { v = %d }\nfunction gf%d(a) return a end\n", i, i, i)
	case 10: // declares an annotation class
		return fmt.Sprintf("---@class Cls%d\n---@field n number\nlocal cls%d = {}\nreturn cls%d\n", i, i, i)
	case 11: // uses the annotation class of another file
		return fmt.Sprintf("---@type Cls%d\nlocal v%d = nil\nprint(v%d)\n", other, i, i)
	case 13: // declares a class that every file in this variant (or 14) declares too: each declaration is flagged with the others as related information
		return fmt.Sprintf("---@class DupCls\n---@field n%d number\nlocal dup%d = {}\nreturn dup%d\n", i, i, i)
	case 14: // the same one line further down: the other files' warnings keep type, range and message, only their related locations move
		return fmt.Sprintf("\n---@class DupCls\n---@field n%d number\nlocal dup%d = {}\nreturn dup%d\n", i, i, i)
	case 15: // requires the next file by its bare name (f2 also exists as alt/f2.lua: the name index has two candidates)
		return fmt.Sprintf("local rq%d = require(\"f%d\")\nprint(rq%d)\n", i, other, i)
	case 16: // variant 2 (semantic warnings) two lines further down: the same text behind leading blank lines
		return "\n\n" + c08Variant(i, 2)
	case 17: // an annotated cross-file function
		return fmt.Sprintf("---@param a number\n---@param b number\nfunction gf%d(a, b)\n  print(a, b)\nend\n", i)
	case 19: // the same one line further down
		return "\n" + c08Variant(i, 17)
	case 18: // calls the other file's function with as many arguments as it declares
		return fmt.Sprintf("gf%d(1, 2)\n", other)
	case 20: // … with one argument fewer
		return fmt.Sprintf("gf%d(1)\n", other)
	case 21: // (project mode) the entry file: requires f1 and uses its global
		return "require(\"f1\")\nprint(gb1)\n"
	case 22: // … f1: defines that global, uses one of sub/f2
		return "gb1 = 1\nprint(gd2)\n"
	case 23:
		return "gd2 = 1\n"
	case 24: // one require that never resolves, one that resolves once f1 exists
		return "local m = require(\"nothere\")\nlocal n = require(\"f1\")\nprint(m, n)\n"
	case 25:
		return "return {}\n"
	case 12: // the empty file
		return ""
	case 8: // a second clean text
		return fmt.Sprintf("local t%d = { 1 }\nreturn t%d\n", i, i)
	default: // another syntax error variant
		return fmt.Sprintf("local function q%d(\nprint(1)\n", i)
	}
}

func c08HasSyntaxError(v int) bool { return v == 1 || v == 6 || v == 7 }

type c08Err struct{ ty int; key, extra, render string }

// c08Conv: CheckError → model token + what the client must see
func c08Conv(root string, e common.CheckError) c08Err {
	rel := func(p string) string {
		if r, err := filepath.Rel(root, p); err == nil {
			return r
		}
		return p
	}
	rg := lspcommon.LocToRange(&e.Loc)
	msg := fmt.Sprintf("[Warn type:%d], %s", e.ErrType, e.ErrStr)
	if e.EntryFile != "" {
		if e.EntryFile == "common project" {
			msg += ". <" + e.EntryFile + ">"
		} else {
			msg += ". <process entry file: " + e.EntryFile + ">"
		}
	}
	var rels []string
	for _, r := range e.RelateVec {
		rr := lspcommon.LocToRange(&r.Loc)
		rels = append(rels, fmt.Sprintf("%s@%d:%d-%d:%d %s", rel(r.LuaFile), rr.Start.Line, rr.Start.Character, rr.End.Line, rr.End.Character, r.ErrStr))
	}
	render := fmt.Sprintf("%d:%d-%d:%d %s R=%s", rg.Start.Line, rg.Start.Character, rg.End.Line, rg.End.Character, msg, strings.Join(rels, ";"))
	return c08Err{ty: int(e.ErrType), key: lib.Hex([]byte(e.ToString())), extra: lib.Hex([]byte(e.EntryFile + "|" + strings.Join(rels, ";"))), render: render}
}

func runC08(res *lib.Result, tier string, seed int64, args []string) error {
	nHist := 200
	if tier == "thorough" {
		nHist = 1500
	}
	res.Rule = "histories of 6-22 events (didOpen, didChange with / without syntax errors, didSave, didClose, file creation / change / deletion on disk announced by didChangeWatchedFiles, fix-then-break cycles, edits left unsaved) over three files whose content is one of fifteen variants (clean, syntax errors, semantic warnings, defines a cross-file global / function, the same with another parameter count, uses another file's global, requires another file, declares / uses an annotation class, declares a class other files declare too, empty), with scripted histories for the rare transitions (a required module created, a class's file deleted, a callee's parameter count changed, a duplicate declaration moved): (1) after EVERY event the folded publishDiagnostics view of the real server = the Lean bookkeeping model fed with the error maps the server computed (verif hook); (2) at the end every buffer is saved and the client view must equal the view of a freshly started server on the final files; (3) while a buffer is unsaved its file must show its syntax errors, else the saved non-syntax diagnostics; non-trivial = the history contains an unsaved edit and a file event; distinct by history"
	drv, err := lib.StartDriver()
	if err != nil {
		return err
	}
	defer drv.Close()
	root := lib.NewRng(uint64(seed))
	names := []string{"f0.lua", "f1.lua", "sub/f2.lua"}
	for hi := 0; hi < nHist; hi++ {
		r := root.Fork(uint64(hi))
		dir := lib.ScratchDir(fmt.Sprintf("c08h%d", hi))
		disk := map[string]int{} // file → variant on disk (absent = does not exist)
		files := map[string]string{}
		// every fourth history keeps everything that is SAVED free of diagnostics (variants 0 and 8 on disk,
		// syntax errors only in unsaved buffers): "the whole workspace is clean" is a state of its own in the
		// push logic
		cleanMode := hi%4 == 3
		diskVariant := func() int {
			if cleanMode {
				return []int{0, 8}[r.Intn(2)]
			}
			return []int{0, 1, 2, 3, 4, 5, 3, 4, 9, 10, 11, 12}[r.Intn(12)]
		}
		for i, n := range names {
			if cleanMode || r.Chance(5, 6) {
				disk[n] = diskVariant()
				files[n] = c08Variant(i, disk[n])
			}
		}
		if len(files) == 0 {
			disk["f0.lua"], files["f0.lua"] = 0, c08Variant(0, 0)
		}
		if hi%32 == 1 {
			delete(disk, "sub/f2.lua")
			delete(files, "sub/f2.lua")
			disk["f0.lua"], files["f0.lua"] = 0, c08Variant(0, 0)
			disk["f1.lua"], files["f1.lua"] = 5, c08Variant(1, 5) // require("sub.f2")
		}
		k1Hist := hi%32 == 10 // the canonical history of the former finding K1 (runs in every tier; repaired)
		if k1Hist {
			// f0 uses the global f1 would define (undefined-variable warnings in its saved list), f1 is clean
			disk["f0.lua"], files["f0.lua"] = 4, c08Variant(0, 4)
			disk["f1.lua"], files["f1.lua"] = 0, c08Variant(1, 0)
			disk["sub/f2.lua"], files["sub/f2.lua"] = 0, c08Variant(2, 0)
		}
		if hi%32 == 2 {
			// f0 defines gf0(a, b), sub/f2 calls it with three arguments; the script rewrites f0 to gf0(a): the
			// caller's warning keeps its place and changes its message
			disk["f0.lua"], files["f0.lua"] = 3, c08Variant(0, 3)
			disk["f1.lua"], files["f1.lua"] = 0, c08Variant(1, 0)
			disk["sub/f2.lua"], files["sub/f2.lua"] = 4, c08Variant(2, 4)
		}
		if hi%32 == 0 {
			// two files named f2.lua (sub/f2.lua and alt/f2.lua), f1 requires "f2": the script deletes sub/f2.lua, the
			// other candidate remains
			disk["f0.lua"], files["f0.lua"] = 0, c08Variant(0, 0)
			disk["f1.lua"], files["f1.lua"] = 15, c08Variant(1, 15)
			disk["sub/f2.lua"], files["sub/f2.lua"] = 0, c08Variant(2, 0)
			files["alt/f2.lua"] = "local alt = {}\nreturn alt\n"
		}
		if hi%32 == 4 {
			// f0 defines the global sub/f2 uses; the script rewrites f0 on disk WHILE IT IS OPEN (a checkout, an external
			// formatter), the client reloads the document and closes it
			disk["f0.lua"], files["f0.lua"] = 3, c08Variant(0, 3)
			disk["f1.lua"], files["f1.lua"] = 0, c08Variant(1, 0)
			disk["sub/f2.lua"], files["sub/f2.lua"] = 4, c08Variant(2, 4)
		}
		if hi%32 == 12 {
			// f0 is rewritten twice on disk; the second text differs from the first only by leading blank lines
			disk["f0.lua"], files["f0.lua"] = 0, c08Variant(0, 0)
			disk["f1.lua"], files["f1.lua"] = 0, c08Variant(1, 0)
			disk["sub/f2.lua"], files["sub/f2.lua"] = 0, c08Variant(2, 0)
		}
		if hi%32 == 14 {
			// f0 declares an annotated function, sub/f2 calls it; f0 gets an unsaved (valid) edit that is DISCARDED by
			// closing the document; then sub/f2 is rewritten on disk to call the function with too few arguments
			disk["f0.lua"], files["f0.lua"] = 17, c08Variant(0, 17)
			disk["f1.lua"], files["f1.lua"] = 0, c08Variant(1, 0)
			disk["sub/f2.lua"], files["sub/f2.lua"] = 18, c08Variant(2, 18)
		}
		if hi%32 == 8 {
			// project mode (luahelper.json names f0.lua as the entry file): f0 requires f1, which does not exist yet; the
			// script creates it — the project of f0 has to be analysed again, f1 belongs to it
			for n := range disk {
				delete(disk, n)
				delete(files, n)
			}
			files["luahelper.json"] = "{\"ShowWarnFlag\":1,\"ProjectFiles\":[\"f0.lua\"]}"
			disk["f0.lua"], files["f0.lua"] = 21, c08Variant(0, 21)
			disk["sub/f2.lua"], files["sub/f2.lua"] = 23, c08Variant(2, 23)
		}
		if hi%32 == 9 {
			// f0 requires a module that never exists and f1, which the script creates: the diagnostic of the first require stays
			for n := range disk {
				delete(disk, n)
				delete(files, n)
			}
			disk["f0.lua"], files["f0.lua"] = 24, c08Variant(0, 24)
			disk["sub/f2.lua"], files["sub/f2.lua"] = 0, c08Variant(2, 0)
		}
		if hi%32 == 17 {
			// f0.lua is clean on disk (no saved diagnostics at all); it gets a clean unsaved edit, then the file is rewritten
			// on disk with a syntax error: the buffer is still clean and unsaved, the saved syntax error stays hidden
			disk["f0.lua"], files["f0.lua"] = 0, c08Variant(0, 0)
			disk["f1.lua"], files["f1.lua"] = 0, c08Variant(1, 0)
			disk["sub/f2.lua"], files["sub/f2.lua"] = 0, c08Variant(2, 0)
		}
		if hi%32 == 16 {
			// sub/f2.lua loads f0.lua by path (dofile: resolved through the file-exists cache); the script deletes f0.lua
			disk["f0.lua"], files["f0.lua"] = 0, c08Variant(0, 0)
			disk["f1.lua"], files["f1.lua"] = 0, c08Variant(1, 0)
			disk["sub/f2.lua"], files["sub/f2.lua"] = 5, c08Variant(2, 5)
		}
		if hi%32 == 6 {
			// two files declare the same class; the script moves one declaration down a line
			disk["f0.lua"], files["f0.lua"] = 13, c08Variant(0, 13)
			disk["f1.lua"], files["f1.lua"] = 13, c08Variant(1, 13)
			disk["sub/f2.lua"], files["sub/f2.lua"] = 0, c08Variant(2, 0)
		}
		if (hi%32 == 5 || hi%32 == 13) {
			// every file declares a class and uses the next one's... here: all files exist, file x declares, x-1 uses
			for i, n := range names {
				disk[n] = []int{10, 11}[(i+hi/8)%2]
				files[n] = c08Variant(i, disk[n])
			}
		}
		if err := lib.WriteWorkspace(dir, files); err != nil {
			return err
		}
		sess, err := lib.StartSession(dir, lib.AllChecksOptions())
		if err != nil {
			os.RemoveAll(dir)
			return err
		}
		render := map[string]string{} // ty:key:extra → rendered diagnostic
		tok := func(e common.CheckError) string {
			c := c08Conv(sess.Root, e)
			t := fmt.Sprintf("%d:%s:%s", c.ty, c.key, c.extra)
			render[t] = c.render
			return t
		}
		encMap := func(m map[string][]common.CheckError) string {
			var fs []string
			for f := range m {
				fs = append(fs, f)
			}
			sort.Strings(fs)
			var parts []string
			for _, f := range fs {
				var es []string
				for _, e := range m[f] {
					es = append(es, tok(e))
				}
				parts = append(parts, sess.Rel(f)+"="+strings.Join(es, ","))
			}
			if len(parts) == 0 {
				return "-"
			}
			return strings.Join(parts, ";")
		}
		actualView := func() map[string][]string {
			out := map[string][]string{}
			for f, ds := range sess.DiagView() {
				for _, d := range ds {
					var rels []string
					for _, rr := range d.Related {
						rels = append(rels, fmt.Sprintf("%s@%d:%d-%d:%d %s", sess.Rel(rr.Location.URI), rr.Location.Range.Start.Line, rr.Location.Range.Start.Character, rr.Location.Range.End.Line, rr.Location.Range.End.Character, rr.Message))
					}
					out[f] = append(out[f], fmt.Sprintf("%d:%d-%d:%d %s R=%s", d.Range.Start.Line, d.Range.Start.Character, d.Range.End.Line, d.Range.End.Character, d.Message, strings.Join(rels, ";")))
				}
				sort.Strings(out[f])
			}
			return out
		}
		var history []string // human readable
		var evs []string     // model events
		saved0, _ := langserver.VerifDiagMaps()
		evs = append(evs, "I~"+encMap(saved0))
		open := map[string]bool{}
		buffer := map[string]int{} // open file → variant in the buffer
		dirty := map[string]bool{}
		sawDirty, sawFileEvent := false, false
		snapshotSaved := func() {}
		check := func(what string) bool {
			sess.Sync()
			saved, change := langserver.VerifDiagMaps()
			_ = change
			histText := fmt.Sprintf("workspace %v\n%s", files, strings.Join(history, "\n"))
			lib.Breadcrumb("C08 " + histText)
			ans, err := drv.Ask("diag " + strings.Join(names, ",") + " " + strings.Join(evs, "|"))
			if err != nil {
				res.AddViolation("crash-or-timeout", err.Error(), histText, false)
				return false
			}
			_ = saved
			model := map[string][]string{}
			for _, part := range strings.Split(strings.TrimPrefix(ans, "V="), ";") {
				kv := strings.SplitN(part, "=", 2)
				if len(kv) != 2 || kv[1] == "" {
					continue
				}
				for _, t := range strings.Split(kv[1], ",") {
					model[kv[0]] = append(model[kv[0]], render[t])
				}
				sort.Strings(model[kv[0]])
			}
			act := actualView()
			for _, n := range names {
				if strings.Join(model[n], "\n") != strings.Join(act[n], "\n") {
					res.AddViolation("impl-vs-model", fmt.Sprintf("after %s: file %s: client holds %q, the bookkeeping model predicts %q", what, n, act[n], model[n]), histText, true)
					return false
				}
			}
			return true
		}
		nEv := 6 + r.Intn(17)
		ok := true
		// clean-mode histories start with a scripted prefix: an unsaved syntax error is abandoned by closing the
		// file, then another file is edited cleanly and saved (the workspace is clean again at that event)
		type scripted struct{ i, k, v int }
		var script []scripted
		if hi%32 == 1 {
			// a module required by its dotted path (sub.f2) is created while the requiring file shows "not found"
			script = []scripted{{2, 9, 0}}
		}
		if hi%32 == 2 {
			script = []scripted{{0, 9, 9}}
		}
		if k1Hist {
			// f0 gets an unsaved syntax error; f1 is edited to define the global and saved: the re-publish used to replace what
			// the client is shown for f0 (its saved list changed) although f0's buffer still has the syntax error
			script = []scripted{{0, 0, 0}, {0, 2, 1}, {1, 0, 0}, {1, 2, 3}, {1, 5, 0}}
		}
		if hi%32 == 6 {
			script = []scripted{{0, 9, 14}}
		}
		if hi%32 == 0 {
			script = []scripted{{2, 9, -2}}
		}
		if hi%32 == 12 {
			script = []scripted{{0, 9, 2}, {0, 9, 16}}
		}
		if hi%32 == 16 {
			script = []scripted{{0, 9, -2}}
		}
		if hi%32 == 17 {
			script = []scripted{{0, 0, 0}, {0, 2, 8}, {0, 10, 1}}
		}
		if hi%32 == 8 {
			script = []scripted{{1, 9, 22}}
		}
		if hi%32 == 9 {
			script = []scripted{{1, 9, 25}}
		}
		if hi%32 == 14 {
			script = []scripted{{0, 0, 0}, {0, 2, 19}, {0, 7, 0}, {2, 9, 20}}
		}
		if hi%32 == 4 {
			script = []scripted{{0, 0, 0}, {0, 10, 0}, {0, 2, 0}, {0, 7, 0}}
		}
		if (hi%32 == 5 || hi%32 == 13) {
			// a file that declares an annotation class is deleted while another file uses the class
			x := 2 // variants [10, 11, 10]: f1 uses the class f2 declares
			if (hi/8)%2 == 1 {
				x = 1 // variants [11, 10, 11]: f0 uses the class f1 declares
			}
			script = []scripted{{x, 9, -2}}
		}
		if cleanMode && hi%8 == 7 {
			a, b := r.Intn(3), r.Intn(3)
			for b == a {
				b = r.Intn(3)
			}
			script = []scripted{{a, 0, 0}, {a, 2, []int{1, 6, 7}[r.Intn(3)]}, {a, 7, 0}, {b, 0, 0}, {b, 2, []int{0, 8}[r.Intn(2)]}, {b, 5, 0}}
		}
		if (hi%32 == 5 || hi%32 == 13) || hi%32 == 1 || hi%32 == 2 || k1Hist || hi%32 == 6 || hi%32 == 0 || hi%32 == 4 || hi%32 == 12 || hi%32 == 14 || hi%32 == 8 || hi%32 == 9 || hi%32 == 16 || hi%32 == 17 {
			nEv = r.Intn(2) // the comparison with a fresh server follows (almost) directly
		} else if hi%3 == 1 {
			nEv = 1 + r.Intn(4) // short histories: the state right after an event is compared with a fresh server
		}
		for e := 0; e < nEv+len(script) && ok; e++ {
			i := r.Intn(3)
			n := names[i]
			k := r.Intn(10)
			forceV := -1
			if e < len(script) {
				i, k, forceV = script[e].i, script[e].k, script[e].v
				n = names[i]
				if _, exists := disk[n]; !exists && k != 9 {
					continue
				}
			}
			// steer towards applicable events
			if e >= len(script) && len(open) == 0 && k <= 7 {
				for j, cand := range names {
					if _, exists := disk[cand]; exists {
						i, n, k = j, cand, 0
					}
				}
			} else if e >= len(script) && k >= 2 && k <= 7 && !open[n] {
				for j, cand := range names {
					if open[cand] {
						i, n = j, cand
					}
				}
			}
			switch {
			case k == 10: // the file of an OPEN document is rewritten on disk and the watcher reports the change
				if !open[n] || forceV < 0 {
					continue
				}
				sawFileEvent = true
				disk[n] = forceV
				os.WriteFile(filepath.Join(dir, n), []byte(c08Variant(i, forceV)), 0o644)
				// (a document that had no unsaved edit does not become "unsaved" by this: the server shows the analysis of
				// the new file, as a fresh one does; an unsaved edit stays one and keeps its view)
				history = append(history, fmt.Sprintf("rewrite %s on disk (variant %d) while it is open + didChangeWatchedFiles", n, forceV))
				sess.Watched(map[string]int{n: 2})
				sess.Sync()
				{
					saved, _ := langserver.VerifDiagMaps()
					evs = append(evs, "W~"+n+"~"+encMap(saved))
				}
			case k <= 1: // open
				if _, exists := disk[n]; !exists || open[n] {
					continue
				}
				open[n], buffer[n] = true, disk[n]
				if ov := []int{0, 1, 2, 3, 4, 6, 7}[r.Intn(7)]; e >= len(script) && !cleanMode && forceV < 0 && c08Variant(i, ov) != c08Variant(i, disk[n]) && r.Chance(1, 4) {
					// the client's text is not the file's (a buffer restored with unsaved edits): an open and an edit in one
					buffer[n] = ov
					dirty[n] = true
					sawDirty = true
					sess.DidOpen(n, c08Variant(i, ov))
					sess.Sync()
					saved, change := langserver.VerifDiagMaps()
					var es []string
					for f, l := range change {
						if sess.Rel(f) == n {
							for _, x := range l {
								es = append(es, tok(x))
							}
						}
					}
					enc := "-"
					if len(es) > 0 {
						enc = strings.Join(es, ",")
					}
					history = append(history, fmt.Sprintf("didOpen %s with the text of variant %d (the file holds variant %d)", n, ov, disk[n]))
					evs = append(evs, "OE~"+n+"~"+encMap(saved)+"~"+enc)
					break
				}
				sess.DidOpen(n, c08Variant(i, disk[n]))
				sess.Sync()
				saved, _ := langserver.VerifDiagMaps()
				history = append(history, fmt.Sprintf("didOpen %s", n))
				evs = append(evs, "O~"+n+"~"+encMap(saved))
			case k <= 4: // change (full text)
				if !open[n] {
					continue
				}
				v := []int{0, 1, 2, 3, 4, 5, 6, 7, 9, 10, 11, 3, 4, 12}[r.Intn(14)]
				if cleanMode {
					v = []int{0, 8, 1, 6, 7}[r.Intn(5)]
				}
				if forceV >= 0 {
					v = forceV
				}
				buffer[n] = v
				dirty[n] = true
				sawDirty = true
				sess.DidChange(n, []lib.ContentChange{{Text: c08Variant(i, v)}})
				sess.Sync()
				_, change := langserver.VerifDiagMaps()
				var es []string
				for f, l := range change {
					if sess.Rel(f) == n {
						for _, x := range l {
							es = append(es, tok(x))
						}
					}
				}
				enc := "-"
				if len(es) > 0 {
					enc = strings.Join(es, ",")
				}
				history = append(history, fmt.Sprintf("didChange %s -> variant %d (unsaved)", n, v))
				evs = append(evs, "C~"+n+"~"+enc)
			case k <= 6: // save
				if !open[n] {
					continue
				}
				txt := c08Variant(i, buffer[n])
				os.WriteFile(filepath.Join(dir, n), []byte(txt), 0o644)
				disk[n] = buffer[n]
				delete(dirty, n)
				sess.DidSave(n, txt)
				sess.Sync()
				saved, _ := langserver.VerifDiagMaps()
				history = append(history, fmt.Sprintf("didSave %s (variant %d)", n, buffer[n]))
				evs = append(evs, "S~"+n+"~"+encMap(saved))
				if len(dirty) == 0 {
					snapshotSaved()
				}
			case k == 7: // close
				if !open[n] {
					continue
				}
				delete(open, n)
				delete(buffer, n)
				delete(dirty, n)
				sess.DidClose(n)
				history = append(history, fmt.Sprintf("didClose %s", n))
				evs = append(evs, "X~"+n+"~1")
			default: // file event on disk for a file that is not open
				if open[n] {
					continue
				}
				sawFileEvent = true
				typ := 0
				if _, exists := disk[n]; !exists {
					v := diskVariant()
					disk[n] = v
					os.MkdirAll(filepath.Dir(filepath.Join(dir, n)), 0o755)
					os.WriteFile(filepath.Join(dir, n), []byte(c08Variant(i, v)), 0o644)
					typ = 1
					history = append(history, fmt.Sprintf("create %s (variant %d) + didChangeWatchedFiles", n, v))
					if r.Chance(1, 3) {
						// the watcher reports the new file twice in one notification: Created, then Changed
						typ = 12
						history[len(history)-1] += " [Created, Changed]"
					}
				} else if forceV >= 0 || (forceV != -2 && r.Chance(1, 2)) {
					v := diskVariant()
					if forceV >= 0 {
						v = forceV
					}
					disk[n] = v
					os.MkdirAll(filepath.Dir(filepath.Join(dir, n)), 0o755)
					os.WriteFile(filepath.Join(dir, n), []byte(c08Variant(i, v)), 0o644)
					typ = 2
					history = append(history, fmt.Sprintf("rewrite %s (variant %d) + didChangeWatchedFiles", n, v))
				} else {
					delete(disk, n)
					os.Remove(filepath.Join(dir, n))
					typ = 3
					history = append(history, fmt.Sprintf("delete %s + didChangeWatchedFiles", n))
				}
				if typ == 12 {
					sess.WatchedSeq([][2]interface{}{{n, 1}, {n, 2}})
				} else {
					sess.Watched(map[string]int{n: typ})
				}
				sess.Sync()
				saved, _ := langserver.VerifDiagMaps()
				evs = append(evs, "W~"+n+"~"+encMap(saved))
				if len(dirty) == 0 {
					snapshotSaved()
				}
			}
			ok = check(history[len(history)-1])
			// (3) the view of files with unsaved edits (also when the model comparison has failed: a deviation here is a
			// failing input of the property itself)
			{
				act := actualView()
				for f := range dirty {
					histText := fmt.Sprintf("workspace %v\n%s", files, strings.Join(history, "\n"))
					var syn, non []string
					for _, d := range act[f] {
						if strings.Contains(d, "[Warn type:1],") {
							syn = append(syn, d)
						} else {
							non = append(non, d)
						}
					}
					if c08HasSyntaxError(buffer[f]) {
						if len(syn) == 0 || len(non) > 0 {
							// (was finding K1 until pushAllDiagnosticsAgain was repaired to restore the view of unsaved buffers)
							res.AddViolation("impl-vs-spec", fmt.Sprintf("file %s has an unsaved buffer with a syntax error but the client holds %q", f, act[f]), histText, false)
						}
					} else {
						// a buffer without syntax errors: the saved non-syntax diagnostics (of the server's current saved map)
						savedNow, _ := langserver.VerifDiagMaps()
						var want []string
						for sf, l := range savedNow {
							if sess.Rel(sf) != f {
								continue
							}
							for _, x := range l {
								if int(x.ErrType) != 1 {
									want = append(want, c08Conv(sess.Root, x).render)
								}
							}
						}
						sort.Strings(want)
						if strings.Join(act[f], "\n") != strings.Join(want, "\n") {
							res.AddViolation("impl-vs-spec", fmt.Sprintf("file %s has an unsaved buffer WITHOUT syntax errors but the client holds %q instead of the saved non-syntax diagnostics %q", f, act[f], want), histText, false)
						}
					}
				}
			}
		}
		{
			// settle: save every dirty buffer, then compare with a fresh server (also when the model comparison has
			// already failed: a difference from the fresh server is the failing input of the property itself)
			var ds []string
			for f := range dirty {
				ds = append(ds, f)
			}
			sort.Strings(ds)
			for _, f := range ds {
				i := int(f[1] - '0')
				txt := c08Variant(i, buffer[f])
				os.WriteFile(filepath.Join(dir, f), []byte(txt), 0o644)
				disk[f] = buffer[f]
				sess.DidSave(f, txt)
				sess.Sync()
				saved, _ := langserver.VerifDiagMaps()
				history = append(history, fmt.Sprintf("didSave %s (variant %d) [settling]", f, buffer[f]))
				evs = append(evs, "S~"+f+"~"+encMap(saved))
				ok = ok && check(history[len(history)-1])
			}
		}
		final := actualView()
		histText := fmt.Sprintf("workspace %v\n%s", files, strings.Join(history, "\n"))
		sess.Close()
		res.Count(histText, sawDirty && sawFileEvent)
		res.Dist(fmt.Sprintf("events=%d", (len(history)/5)*5))
		if hi < 1 {
			res.Sample(map[string]interface{}{"history": history, "finalView": final})
		}
		{
			fresh, err := lib.StartSession(dir, lib.AllChecksOptions())
			if err != nil {
				os.RemoveAll(dir)
				return err
			}
			var fv = map[string][]string{}
			for f, dsx := range fresh.DiagView() {
				for _, d := range dsx {
					var rels []string
					for _, rr := range d.Related {
						rels = append(rels, fmt.Sprintf("%s@%d:%d-%d:%d %s", fresh.Rel(rr.Location.URI), rr.Location.Range.Start.Line, rr.Location.Range.Start.Character, rr.Location.Range.End.Line, rr.Location.Range.End.Character, rr.Message))
					}
					fv[f] = append(fv[f], fmt.Sprintf("%d:%d-%d:%d %s R=%s", d.Range.Start.Line, d.Range.Start.Character, d.Range.End.Line, d.Range.End.Character, d.Message, strings.Join(rels, ";")))
				}
				sort.Strings(fv[f])
			}
			fresh.Close()
			for _, n := range names {
				if strings.Join(final[n], "\n") != strings.Join(fv[n], "\n") {
					res.AddViolation("impl-vs-spec", fmt.Sprintf("file %s: after the history the client holds %q, a freshly started server publishes %q", n, final[n], fv[n]), histText, false)
					break
				}
			}
		}
		os.RemoveAll(dir)
	}
	return nil
}
