package main

import (
	"fmt"
	"strings"

	"verifharness/lib"
)

func init() { register("LEX", runLexOnly) }

// compareParse runs model and implementation parsers on src.
func compareParse(drv *lib.Driver, src []byte) (diff string, unmodelled bool, implErrs int, err error) {
	conv := lib.ConvTableFor(src)
	dump, nerr, _ := lib.ParseDump(src)
	ans, err := drv.Ask(fmt.Sprintf("parse %s %s", lib.Hex(src), conv))
	if err != nil {
		return "", false, nerr, err
	}
	if len(ans) < 8 || ans[0] != 'P' {
		return "", false, nerr, fmt.Errorf("bad driver answer %q", lib.Trunc(ans, 200))
	}
	if strings.HasPrefix(ans[2:], "M1") {
		return "", true, nerr, nil
	}
	if ans != dump {
		// first differing position
		n := 0
		for n < len(ans) && n < len(dump) && ans[n] == dump[n] {
			n++
		}
		lo := n - 60
		if lo < 0 {
			lo = 0
		}
		return fmt.Sprintf("at %d: model …%s  implementation …%s", n, lib.Trunc(ans[lo:], 160), lib.Trunc(dump[lo:], 160)), false, nerr, nil
	}
	return "", false, nerr, nil
}

// compareLex runs model and implementation lexers on src; returns a description of the first difference.
func compareLex(drv *lib.Driver, src []byte) (diff string, unmodelled bool, err error) {
	dump, conv, panicked := lib.LexDump(src)
	ans, err := drv.Ask(fmt.Sprintf("lex %s %s", lib.Hex(src), conv))
	if err != nil {
		return "", false, err
	}
	k := strings.LastIndex(ans, " P")
	if k < 0 {
		return "", false, fmt.Errorf("bad driver answer %q", lib.Trunc(ans, 200))
	}
	model, flags := ans[:k], ans[k+1:]
	if strings.Contains(flags, "M1") {
		return "", true, nil
	}
	if panicked != strings.Contains(flags, "P1") {
		return fmt.Sprintf("panic: implementation=%v model=%s", panicked, flags), false, nil
	}
	if panicked {
		return "", false, nil
	}
	if model != dump {
		mt, it := strings.Split(model, ";"), strings.Split(dump, ";")
		for i := 0; i < len(mt) || i < len(it); i++ {
			a, b := "<none>", "<none>"
			if i < len(mt) {
				a = mt[i]
			}
			if i < len(it) {
				b = it[i]
			}
			if a != b {
				return fmt.Sprintf("token %d: model %s implementation %s", i, a, b), false, nil
			}
		}
	}
	return "", false, nil
}

func runLexOnly(res *lib.Result, tier string, seed int64, args []string) error {
	n := 3000
	if tier == "thorough" {
		n = 200000
	}
	drv, err := lib.StartDriver()
	if err != nil {
		return err
	}
	defer drv.Close()
	root := lib.NewRng(uint64(seed))
	for i := 0; i < n; i++ {
		r := root.Fork(uint64(i))
		var src []byte
		if r.Chance(1, 6) {
			src = genRawBytes(r, 24)
		} else {
			src = []byte(genSoup(r, 12))
		}
		diff, unmod, err := compareLex(drv, src)
		if err != nil {
			return err
		}
		if diff == "" && !unmod {
			d2, u2, _, err := compareParse(drv, src)
			if err != nil {
				return err
			}
			diff, unmod = d2, u2
			if d2 != "" {
				diff = "parse: " + d2
			}
		}
		res.Count(string(src), true)
		if unmod {
			res.Dist("unmodelled")
			continue
		}
		if diff != "" {
			res.AddViolation("impl-vs-model", diff, fmt.Sprintf("%q", string(src)), true)
		}
	}
	return nil
}
