package main

import (
	"fmt"
	"os"
	"path/filepath"
	"strings"

	"luahelper-lsp/langserver"

	"verifharness/lib"
)

// Third part of C13: which comment belongs to which line.  Files are generated line by line from a small
// alphabet (blank line, statement, statement with trailing comment, short comment, one-line and multi-line
// long comments, long comment followed by a statement); the generator knows, by construction, the gaps
// between tokens and the comments in each.  The Lean model (Model/Comment.lean: go / fileMap /
// lineComment, about which Props/C13 proves block_is_run, blocks_partition, blocks_maximal,
// blank_line_separates, trailing_alone) is run on those gaps and compared with (a) the comment map the REAL
// lexer builds for the file and (b) what the real AllProject.GetLineComment returns for every line.

type cmapGap struct {
	prevEnd int
	lines   []string // line:endLine:short:hex
}

func genCmapFile(r *lib.Rng) (string, []cmapGap) {
	var src []string
	gaps := []cmapGap{{prevEnd: 0}}
	cur := func() *cmapGap { return &gaps[len(gaps)-1] }
	words := []string{" note", " doc for it", "- third dash", "", " x = 1", "[ not long", "[= nor this", " 说明", "\ttab"}
	n := 4 + r.Intn(14)
	stmt := 0
	addComment := func(line, endLine int, short bool, text string) {
		s := 0
		if short {
			s = 1
		}
		cur().lines = append(cur().lines, fmt.Sprintf("%d:%d:%d:%s", line, endLine, s, lib.Hex([]byte(text))))
	}
	for i := 0; i < n; i++ {
		ln := len(src) + 1
		indent := strings.Repeat(" ", r.Intn(3))
		switch k := r.Intn(12); {
		case k < 2:
			src = append(src, "")
		case k < 5: // short comment line
			t := words[r.Intn(len(words))]
			src = append(src, indent+"--"+t)
			addComment(ln, ln, true, t)
		case k < 7: // statement
			stmt++
			src = append(src, fmt.Sprintf("%sx%d = %d", indent, stmt, stmt))
			gaps = append(gaps, cmapGap{prevEnd: ln})
		case k < 9: // statement with a trailing short comment
			stmt++
			t := words[r.Intn(len(words))]
			src = append(src, fmt.Sprintf("%sx%d = %d --%s", indent, stmt, stmt, t))
			gaps = append(gaps, cmapGap{prevEnd: ln})
			addComment(ln, ln, true, t)
		case k < 10: // one-line long comment
			src = append(src, indent+"--[[ long ]]")
			addComment(ln, ln, false, "")
		case k < 11: // multi-line long comment
			m := 1 + r.Intn(2)
			src = append(src, indent+"--[==[ long")
			for j := 0; j < m-1; j++ {
				src = append(src, " middle")
			}
			src = append(src, " end ]==]")
			addComment(ln, ln+m, false, "")
		default: // long comment, then a statement on the same line, then maybe a trailing comment
			stmt++
			addComment(ln, ln, false, "")
			line := fmt.Sprintf("%s--[[ c ]] x%d = %d", indent, stmt, stmt)
			gaps = append(gaps, cmapGap{prevEnd: ln})
			if r.Chance(1, 2) {
				t := words[r.Intn(len(words))]
				line += " --" + t
				addComment(ln, ln, true, t)
			}
			src = append(src, line)
		}
	}
	text := strings.Join(src, "\n")
	if r.Chance(2, 3) {
		text += "\n"
	}
	return text, gaps
}

func c13CommentMap(res *lib.Result, drv *lib.Driver, root *lib.Rng, n int) error {
	dir := lib.ScratchDir("c13cm")
	defer os.RemoveAll(dir)
	for i := 0; i < n; i++ {
		r := root.Fork(uint64(8800000 + i))
		src, gaps := genCmapFile(r)
		var gs []string
		for _, g := range gaps {
			if len(g.lines) > 0 {
				gs = append(gs, fmt.Sprintf("%d~%s", g.prevEnd, strings.Join(g.lines, ",")))
			}
		}
		nLines := strings.Count(src, "\n") + 2
		var asked []string
		for l := 1; l <= nLines; l++ {
			asked = append(asked, fmt.Sprint(l))
		}
		garg := strings.Join(gs, "|")
		if garg == "" {
			garg = "-"
		}
		caseText := fmt.Sprintf("comment map of\n%s\n-- gaps: %s", src, garg)
		lib.Breadcrumb("C13 " + caseText)
		ans, err := drv.Ask("cmap " + garg + " " + strings.Join(asked, ","))
		if err != nil {
			return err
		}
		if !strings.HasPrefix(ans, "M=") {
			return fmt.Errorf("cmap: driver answered %q for %q", ans, garg)
		}
		parts := strings.SplitN(strings.TrimPrefix(ans, "M="), " D=", 2)
		modelMap, modelDocs := parts[0], parts[1]
		implMap := lib.CommentMapDump([]byte(src))
		res.Count("cmap/"+src, strings.Count(implMap, ";") >= 2)
		res.Dist("cmap.files")
		if i < 1 {
			res.Sample(map[string]string{"file": lib.Trunc(src, 300), "comment map": lib.Trunc(implMap, 300)})
		}
		if implMap != modelMap {
			res.AddViolation("impl-vs-model", fmt.Sprintf("comment map of the real lexer %q, model %q", implMap, modelMap), caseText, true)
			continue
		}
		// GetLineComment of every line, through a real server session on the file
		if err := lib.WriteWorkspace(dir, map[string]string{"main.lua": src}); err != nil {
			return err
		}
		sess, err := lib.StartSession(dir, lib.AllChecksOptions())
		if err != nil {
			return err
		}
		var docs []string
		for l := 1; l <= nLines; l++ {
			docs = append(docs, fmt.Sprintf("%d=%s", l, lib.Hex([]byte(langserver.VerifLineComment(filepath.Join(sess.Root, "main.lua"), l)))))
		}
		sess.Close()
		if got := strings.Join(docs, ";"); got != modelDocs {
			res.AddViolation("impl-vs-model", fmt.Sprintf("GetLineComment per line: real %q, model %q", got, modelDocs), caseText, true)
		}
	}
	return nil
}
