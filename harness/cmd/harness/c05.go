package main

import (
	"fmt"
	"os"
	"path/filepath"
	"strings"

	"verifharness/lib"
)

func init() { register("C05", runC05) }

type scopeOcc struct {
	name             string
	sl, sc, el, ec   int
	kind             string // D W U
	dk               string // declaration kind: L local statement, P parameter, F loop variable, N local function
	s, ms, me, class string
	t                string // traversal-time binding (LuaHelper's own passes)
	flevel           int    // number of enclosing function bodies
	init             string // shape of the paired right-hand expression (declarations and assignment targets)
}

func parseScopeAnswer(ans string) ([]scopeOcc, error) {
	if !strings.HasPrefix(ans, "OK ") {
		return nil, fmt.Errorf("driver: %s", lib.Trunc(ans, 100))
	}
	var out []scopeOcc
	body := strings.TrimPrefix(ans, "OK ")
	if body == "" {
		return nil, nil
	}
	for _, it := range strings.Split(body, ";") {
		f := strings.Split(it, ",")
		if len(f) != 9 {
			return nil, fmt.Errorf("bad item %q", it)
		}
		var o scopeOcc
		at := strings.Index(f[0], "@")
		o.name = string(lib.UnHex(f[0][:at]))
		fmt.Sscanf(f[0][at+1:], "%d:%d:%d:%d", &o.sl, &o.sc, &o.el, &o.ec)
		o.kind = f[1]
		if strings.HasPrefix(o.kind, "D") {
			o.dk = o.kind[1:]
			o.kind = "D"
		}
		o.s = strings.TrimPrefix(f[2], "S=")
		o.ms = strings.TrimPrefix(f[3], "Ms=")
		o.me = strings.TrimPrefix(f[4], "Me=")
		o.class = strings.TrimPrefix(f[5], "K=")
		o.t = strings.TrimPrefix(f[6], "T=")
		fmt.Sscanf(strings.TrimPrefix(f[7], "F="), "%d", &o.flevel)
		o.init = strings.TrimPrefix(f[8], "I=")
		if o.init == "-" { // the driver writes an absent initialiser as "-"
			o.init = ""
		}
		out = append(out, o)
	}
	return out, nil
}

func locOfRange(r lib.Range) string {
	return fmt.Sprintf("%d:%d:%d:%d", r.Start.Line+1, r.Start.Character, r.End.Line+1, r.End.Character)
}

func runC05(res *lib.Result, tier string, seed int64, args []string) error {
	nProg := 120
	if tier == "thorough" {
		nProg = 6000
	}
	res.Rule = "generated single-file programs (nested blocks, functions, for/repeat/while/if, shadowing and re-declaration over a 6-name pool, closures, until-reads, locals re-assigned later, globals); for EVERY identifier occurrence the real server's textDocument/definition with the cursor on the first character and just after the last character, vs the Lean model of the position-based resolver (scope tree + FindMinScope/FindLocVar/IsCorrectPosition) and vs S-bind (Lua scoping); non-trivial = an occurrence bound to a local; distinct by (program, position)"
	drv, err := lib.StartDriver()
	if err != nil {
		return err
	}
	defer drv.Close()
	dir := lib.ScratchDir("c05")
	defer os.RemoveAll(dir)
	root := lib.NewRng(uint64(seed))
	var progs []string
	for _, l := range lib.CorpusLines("C05") {
		progs = append(progs, strings.ReplaceAll(l, "\\n", "\n"))
	}
	nCorpus := len(progs)
	for i := 0; i < nProg; i++ {
		src := genScopeProgram(root.Fork(uint64(i)))
		if i%4 == 3 {
			// several statements / blocks on one line: sibling scopes share a line
			src = compactLayout(root.Fork(uint64(5000000+i)), src, i%8 == 7)
		}
		if i%3 == 1 {
			// methods: the implicit self, explicit parameters after it, a method called through ':' and '.'
			src += scopeMethodBlock
		}
		if i%5 == 2 {
			// the text ends with an identifier and no line break: the end of the document is a position on it
			src = "local eofv = 1\n" + src + "return eofv"
		}
		progs = append(progs, src)
	}
	for pi, src := range progs {
		if pi < nCorpus {
			res.Dist("corpus")
		}
		ans, err := drv.Ask(fmt.Sprintf("scope %s %s", lib.Hex([]byte(src)), lib.ConvTableFor([]byte(src))))
		if err != nil {
			return err
		}
		if strings.HasPrefix(ans, "ERR") {
			return fmt.Errorf("generator produced a program with syntax errors (%s):\n%s", ans, src)
		}
		occs, err := parseScopeAnswer(ans)
		if err != nil {
			return err
		}
		if err := lib.WriteWorkspace(dir, map[string]string{"main.lua": src}); err != nil {
			return err
		}
		sess, err := lib.StartSession(dir, lib.AllChecksOptions())
		if err != nil {
			return err
		}
		sess.DidOpen("main.lua", src)
		sess.Sync()
		if pi < 2 {
			res.Sample(map[string]interface{}{"program": src, "occurrences": len(occs)})
		}
		// explicit declarations named self (a local, a parameter, a loop variable): occurrences bound to them are ordinary
		// occurrences; only the IMPLICIT parameter of a colon method is resolved to the method's table (documented)
		explicitSelf := map[string]bool{}
		for _, o := range occs {
			if o.kind == "D" && o.name == "self" {
				explicitSelf[occLoc(o)] = true
			}
		}
		for _, o := range occs {
			if o.name == "self" && !explicitSelf[occLoc(o)] && !explicitSelf[o.s] {
				continue // the implicit parameter
			}
			for end := 0; end < 2; end++ {
				col, m := o.sc, o.ms
				if end == 1 {
					col, m = o.ec, o.me
				}
				lib.Breadcrumb(fmt.Sprintf("textDocument/definition at line %d character %d (0-based) of main.lua:\n%s", o.sl-1, col, src))
				locs, err := sess.Definition("main.lua", o.sl-1, col)
				caseText := fmt.Sprintf("definition at %d:%d (%s, %s end) in\n%s", o.sl-1, col, o.name, []string{"start", "end"}[end], src)
				if err != nil {
					res.AddViolation("crash-or-timeout", err.Error(), caseText, false)
					continue
				}
				impl := "-"
				if len(locs) > 0 {
					impl = locOfRange(locs[0].Range)
				}
				res.Count(fmt.Sprintf("%d/%d:%d", pi, o.sl, col), o.s != "G")
				res.Dist("occ." + o.kind)
				if o.name == "self" {
					// an explicitly declared self
					if impl != o.s {
						res.HitKnown("C05-K3", "inside a colon method a declaration named self (local self, a parameter self of an inner function, a loop variable self) is ignored: every self is resolved to the table the method belongs to", fmt.Sprintf("definition answers %s but Lua scoping binds the occurrence to %s\n%s", impl, o.s, caseText))
						res.Dist("hit.C05-K3")
					}
					continue
				}
				// global write sites of this name (targets of assignments / function statements bound to no local)
				isGlobalSite := func(loc string) bool {
					for _, w := range occs {
						if w.name == o.name && w.s == "G" && fmt.Sprintf("%d:%d:%d:%d", w.sl, w.sc, w.el, w.ec) == loc {
							return true
						}
					}
					return false
				}
				// implementation vs model: the model predicts the local the position-based resolver picks;
				// "-" = no local, the implementation then falls back to the global tables (any site of a
				// global of that name, or nothing)
				okModel := impl == m
				if m == "-" {
					okModel = impl == "-" || isGlobalSite(impl)
					// a global with assignment sites in this file must resolve to one of them
					nSites := 0
					for _, w := range occs {
						if w.name == o.name && w.s == "G" && w.kind == "W" {
							nSites++
						}
					}
					if o.s == "G" && nSites > 0 && impl == "-" {
						res.AddViolation("impl-vs-spec", fmt.Sprintf("definition answers nothing for the global %s, which is assigned in %d place(s) of this file", o.name, nSites), caseText, false)
						continue
					}
				}
				if !okModel {
					failing := impl != o.s && !(o.s == "G" && (impl == "-" || isGlobalSite(impl)))
					res.AddViolation("impl-vs-model", fmt.Sprintf("definition answers %s, the resolver model predicts %s, Lua scoping (S-bind) says %s", impl, m, o.s), caseText, !failing)
					continue
				}
				// model = implementation; against the spec
				specOK := (o.s == "G" && m == "-") || (o.s != "G" && impl == o.s)
				if !specOK {
					// the former classes C05-K1 / C05-K2 (inside the declaring statement; re-pointed ReferExp) were repaired
					// (73bd950): the resolver model is proved equal to Lua's rule (Props/C05), nothing is excused any more
					res.AddViolation("impl-vs-spec", fmt.Sprintf("definition answers %s but Lua scoping binds the occurrence to %s (model %s, former class %q)", impl, o.s, m, o.class), caseText, false)
				}
			}
		}
		sess.Close()
	}
	return c05CreatedFileWorld(res)
}

func firstByte(s string) byte {
	if s == "" {
		return 0
	}
	return s[0]
}

// fixed world (every tier): a global that a file created AFTER start-up assigns resolves from the files that were there
// before — in both ways a client announces the file (a Created file event, or opening it)
func c05CreatedFileWorld(res *lib.Result) error {
	a := "local z = 1\nprint(gnew, z)\n"
	b := "gnew = 1\n"
	for _, how := range []string{"created-event", "didOpen", "created-event-then-didOpen"} {
		dir := lib.ScratchDir("c05cf")
		if err := lib.WriteWorkspace(dir, map[string]string{"a.lua": a}); err != nil {
			return err
		}
		sess, err := lib.StartSession(dir, lib.AllChecksOptions())
		if err != nil {
			os.RemoveAll(dir)
			return err
		}
		sess.DidOpen("a.lua", a)
		sess.Sync()
		if err := os.WriteFile(filepath.Join(dir, "b.lua"), []byte(b), 0o644); err != nil {
			return err
		}
		if how != "didOpen" {
			sess.Watched(map[string]int{"b.lua": 1})
			sess.Sync()
		}
		if how != "created-event" {
			sess.DidOpen("b.lua", b)
			sess.Sync()
		}
		locs, err := sess.Definition("a.lua", 1, 7)
		sess.Close()
		os.RemoveAll(dir)
		caseText := fmt.Sprintf("workspace with a.lua =\n%s-- opened; then b.lua =\n%s-- appears on disk (%s); definition at a.lua 1:7 (gnew)", a, b, how)
		res.Count("created-file-world/"+how, true)
		res.Dist("created-file-world." + how)
		if err != nil {
			res.AddViolation("crash-or-timeout", err.Error(), caseText, false)
			continue
		}
		got := "-"
		if len(locs) > 0 {
			got = filepath.Base(locs[0].URI) + "@" + locOfRange(locs[0].Range)
		}
		if got != "b.lua@1:0:1:4" {
			res.AddViolation("impl-vs-spec", fmt.Sprintf("definition answers %s, the global gnew is assigned at b.lua 1:0:1:4 (1-based line)", got), caseText, false)
		}
	}
	return nil
}
