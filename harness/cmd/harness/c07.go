package main

import (
	"fmt"
	"os"
	"sort"
	"strings"

	"verifharness/lib"
)

func init() { register("C07", runC07) }

var c07Builtins = map[string]bool{"print": true, "pairs": true, "ipairs": true, "gfun_builtin": false}

func runC07(res *lib.Result, tier string, seed int64, args []string) error {
	nProg := 150
	if tier == "thorough" {
		nProg = 8000
	}
	res.Rule = "generated programs as in C05 (locals, parameters, loop variables, shadowing, closure-only and until-only reads, write-only locals, globals defined later / in functions / never); the real server's diagnostics of types 2, 3, 4 and 17 vs the expectation derived from S-bind: unused = a 'local' declaration with no read bound to it (function values, '_', parameters, loop variables exempt), write-only assignments of such a local = type 17, undefined = a read of a global no file assigns and that is not built in; non-trivial = the program has at least one expected diagnostic; distinct by program"
	drv, err := lib.StartDriver()
	if err != nil {
		return err
	}
	defer drv.Close()
	dir := lib.ScratchDir("c07")
	defer os.RemoveAll(dir)
	root := lib.NewRng(uint64(seed))
	for pi, src := range scopePrograms(root, "C07", nProg) {
		occs, sess, err := scopeProgram(drv, dir, src)
		if err != nil {
			return err
		}
		diags := sess.DiagView()["main.lua"]
		sess.Close()
		got := map[string]bool{}
		for _, d := range diags {
			t := d.ErrType()
			if t == 2 || t == 3 || t == 4 || t == 17 {
				got[fmt.Sprintf("t%d@%s", t, locOfRange(d.Range))] = true
			}
		}
		if pi%8 == 0 {
			// the same text in two files of one workspace: undefined reads (2) and unused locals (4, 17) do not depend on the
			// other file (it assigns the same globals), so both files must show what the single file showed
			dir2 := lib.ScratchDir("c07tw")
			if err := lib.WriteWorkspace(dir2, map[string]string{"a.lua": src, "b.lua": src, "c.lua": "local other = 1\n"}); err != nil {
				return err
			}
			tw, err := lib.StartSession(dir2, lib.AllChecksOptions())
			if err != nil {
				os.RemoveAll(dir2)
				return err
			}
			view := tw.DiagView()
			tw.Close()
			os.RemoveAll(dir2)
			pick := func(m map[string]bool) []string {
				var out []string
				for k := range m {
					if !strings.HasPrefix(k, "t3@") {
						out = append(out, k)
					}
				}
				sort.Strings(out)
				return out
			}
			for _, f := range []string{"a.lua", "b.lua"} {
				gotF := map[string]bool{}
				for _, d := range view[f] {
					if t := d.ErrType(); t == 2 || t == 4 || t == 17 {
						gotF[fmt.Sprintf("t%d@%s", t, locOfRange(d.Range))] = true
					}
				}
				if a, b := strings.Join(pick(gotF), " "), strings.Join(pick(got), " "); a != b {
					res.AddViolation("impl-vs-spec", fmt.Sprintf("two files a.lua and b.lua with this same text: %s shows [%s], the text alone in a workspace shows [%s] (types 2, 4, 17)", f, a, b), src, false)
				}
			}
			res.Dist("twin-files")
		}
		if pi%8 == 4 {
			// provider file (Props/C07 wsUndefined_provider): a second file assigns half of the names this text reads and
			// never assigns — alternately at top level and inside a function; in main.lua exactly the type-2 reports of
			// those names disappear, every other report (2 of other names, 3, 4, 17) stays as it is for the text alone
			written := map[string]bool{}
			for _, o := range occs {
				if o.kind == "W" && o.t == "G" {
					written[o.name] = true
				}
			}
			var names []string
			seenN := map[string]bool{}
			for _, o := range occs {
				if o.kind == "U" && o.t == "G" && !written[o.name] && !c07Builtins[o.name] && !seenN[o.name] {
					seenN[o.name] = true
					names = append(names, o.name)
				}
			}
			sort.Strings(names)
			provided := map[string]bool{}
			defs := "local unrelated = 0\n"
			for i, n := range names {
				if i%2 == 1 {
					continue
				}
				provided[n] = true
				if (i/2)%2 == 0 {
					defs += n + " = 1\n"
				} else {
					defs += "local function set_" + n + "() " + n + " = unrelated end\nset_" + n + "()\n"
				}
			}
			if len(provided) > 0 {
				dir3 := lib.ScratchDir("c07pv")
				if err := lib.WriteWorkspace(dir3, map[string]string{"main.lua": src, "zdefs.lua": defs}); err != nil {
					return err
				}
				pv, err := lib.StartSession(dir3, lib.AllChecksOptions())
				if err != nil {
					os.RemoveAll(dir3)
					return err
				}
				view := pv.DiagView()
				pv.Close()
				os.RemoveAll(dir3)
				gotP := map[string]bool{}
				for _, d := range view["main.lua"] {
					if t := d.ErrType(); t == 2 || t == 3 || t == 4 || t == 17 {
						gotP[fmt.Sprintf("t%d@%s", t, locOfRange(d.Range))] = true
					}
				}
				wantP := map[string]bool{}
				nameAt := map[string]string{}
				for _, o := range occs {
					if o.kind == "U" {
						nameAt[occLoc(o)] = o.name
					}
				}
				for k := range got {
					if strings.HasPrefix(k, "t2@") && provided[nameAt[k[3:]]] {
						continue
					}
					wantP[k] = true
				}
				var miss, extra []string
				for k := range wantP {
					if !gotP[k] {
						miss = append(miss, k)
					}
				}
				for k := range gotP {
					if !wantP[k] {
						extra = append(extra, k)
					}
				}
				sort.Strings(miss)
				sort.Strings(extra)
				if len(miss) > 0 || len(extra) > 0 {
					res.AddViolation("impl-vs-spec", fmt.Sprintf("with a second file zdefs.lua assigning the globals %v:\n%s-- main.lua must lose exactly the undefined-variable reports of those names; missing %v extra %v (relative to the text alone in a workspace)", keysOf(provided), defs, miss, extra), src, false)
				}
				res.Dist("provider-file")
			}
		}
		// expectation from the binder (traversal binding = what the passes see)
		reads := map[string]int{}
		for _, o := range occs {
			if o.kind == "U" && o.t != "G" {
				reads[o.t]++
			}
		}
		want := map[string]bool{}
		lines := strings.Split(src, "\n")
		// ReferExp re-pointing: a local declared without a value (or with nil) takes the first expression
		// assigned to it as its initialiser (and keeps waiting while that is nil again)
		effInit := map[string]string{}
		for _, o := range occs {
			if o.kind == "D" {
				effInit[occLoc(o)] = o.init
			}
		}
		for _, o := range occs {
			if o.kind == "W" && o.t != "G" {
				if cur, ok := effInit[o.t]; ok && (cur == "" || cur == "nil") && o.init != "" {
					effInit[o.t] = o.init
				}
			}
		}
		for _, o := range occs {
			if o.kind == "D" && reads[occLoc(o)] == 0 && o.name != "_" && o.dk == "L" && !libraryAlias(effInit[occLoc(o)]) && effInit[occLoc(o)] != "func" {
				// a to-be-closed variable is used by leaving its block (documented exemption: VarInfo.IsClose)
				if l := lines[o.sl-1]; byteCol(l, o.sc) >= 0 && strings.HasPrefix(l[byteCol(l, o.sc)+len(o.name):], " <close>") {
					continue
				}
				want["t4@"+occLoc(o)] = true
			}
		}
		for _, o := range occs {
			if o.kind == "W" && o.t != "G" && want["t4@"+o.t] {
				want["t17@"+occLoc(o)] = true
			}
		}
		defined := map[string]bool{}
		for _, o := range occs {
			if o.kind == "W" && o.t == "G" {
				defined[o.name] = true
			}
		}
		for _, o := range occs {
			if o.kind == "U" && o.t == "G" && !defined[o.name] && !c07Builtins[o.name] {
				want["t2@"+occLoc(o)] = true
			}
		}
		// type 3: a read at function level 0 of a global whose every assignment in this file comes later
		firstWrite := map[string][2]int{}
		for _, o := range occs {
			if o.kind == "W" && o.t == "G" {
				if fw, ok := firstWrite[o.name]; !ok || o.sl < fw[0] || (o.sl == fw[0] && o.sc < fw[1]) {
					firstWrite[o.name] = [2]int{o.sl, o.sc}
				}
			}
		}
		for _, o := range occs {
			if fw, ok := firstWrite[o.name]; ok && o.kind == "U" && o.t == "G" && o.flevel == 0 && !c07Builtins[o.name] &&
				o.sl <= fw[0] { // a read inside the first assigning statement itself ('x = x.f') happens before the definition
				want["t3@"+occLoc(o)] = true
			}
		}
		// documented suppression idiom: in 'x = x' / 'x = x or v' the right-hand x is not reported
		selfAssignRead := map[string]bool{}
		for _, w := range occs {
			if w.kind == "W" && (w.init == "name:"+w.name || w.init == "or:"+w.name) {
				// (every read of the name in that statement: 'x = x or "s" + (x)' reports neither)
				for _, o := range occs {
					if o.kind == "U" && o.name == w.name && o.sl == w.sl && o.sc > w.sc {
						selfAssignRead[occLoc(o)] = true
					}
				}
			}
		}
		// the same idiom in its general form (ignoreCircleDefine): a read that is a direct operand of == ~= and or,
		// on the very line on which the name is assigned
		sameLineOperand := func(loc string) bool {
			for _, o := range occs {
				if o.kind != "U" || occLoc(o) != loc {
					continue
				}
				assigned := false
				for _, w := range occs {
					if w.kind == "W" && w.name == o.name && w.sl == o.sl {
						assigned = true
					}
				}
				if !assigned {
					return false
				}
				l := lines[o.sl-1]
				bc := byteCol(l, o.sc)
				if bc < 0 {
					return false
				}
				before, after := strings.TrimRight(l[:bc], " ("), strings.TrimLeft(l[bc+len(o.name):], " )")
				for _, op := range []string{"or", "and", "==", "~="} {
					if strings.HasSuffix(before, op) || strings.HasPrefix(after, op) {
						return true
					}
				}
			}
			return false
		}
		var missing, extra []string
		for k := range want {
			if !got[k] {
				missing = append(missing, k)
			}
		}
		for k := range got {
			if !want[k] {
				extra = append(extra, k)
			}
		}
		sort.Strings(missing)
		sort.Strings(extra)
		res.Count(src, len(want) > 0)
		if pi < 2 {
			res.Sample(map[string]interface{}{"program": src, "expected": len(want), "reported": len(got)})
		}
		// known class K1: an undefined global read directly under 'not' in an if/elseif condition is not
		// reported (the 'if not x' idiom is taken as a deliberate nil test)
		var rest []string
		for _, k := range missing {
			excused := false
			if (strings.HasPrefix(k, "t2@") || strings.HasPrefix(k, "t3@")) && (selfAssignRead[k[3:]] || sameLineOperand(k[3:])) {
				res.HitKnown("C07-K2", "the right-hand x of 'x = x' / 'x = x or v' is never reported as undefined / defined later (documented suppression idiom), also when x really has no earlier definition", fmt.Sprintf("%s in\n%s", k, src))
				res.Dist("hit.C07-K2")
				continue
			}
			if strings.HasPrefix(k, "t2@") || strings.HasPrefix(k, "t3@") {
				var sl, sc int
				fmt.Sscanf(k[3:], "%d:%d", &sl, &sc)
				t := strings.TrimSpace(lines[sl-1])
				col := sc - (len(lines[sl-1]) - len(strings.TrimLeft(lines[sl-1], " ")))
				if (strings.HasPrefix(t, "if ") || strings.HasPrefix(t, "elseif ")) && col >= 4 && strings.HasSuffix(strings.TrimRight(t[:col], "( "), "not") {
					excused = true
				}
			}
			if excused {
				res.HitKnown("C07-K1", "a read of an undefined (or defined-later) global directly under 'not' in an if/elseif condition ('if not x then') is not reported: the idiom is treated as a nil test", fmt.Sprintf("%s in\n%s", k, src))
				res.Dist("hit.C07-K1")
			} else {
				rest = append(rest, k)
			}
		}
		missing = rest
		if len(missing) > 0 || len(extra) > 0 {
			res.AddViolation("impl-vs-spec", fmt.Sprintf("missing %v extra %v", missing, extra), src, false)
		}
	}
	return c07RequireWorld(res)
}

// fixed world (every tier): require("b") loads a module, it does not define a global b — reads of b are undefined; a
// module without a Lua file (require("lfs")) is the documented exemption
func c07RequireWorld(res *lib.Result) error {
	a := "require(\"b\")\nrequire(\"lfs\")\nlfs.mkdir(\"log\")\nlocal function f() return b.run() end\nprint(b, f)\n"
	dir := lib.ScratchDir("c07rq")
	defer os.RemoveAll(dir)
	if err := lib.WriteWorkspace(dir, map[string]string{"a.lua": a, "b.lua": "local M = {}\nfunction M.run() return 1 end\nreturn M\n"}); err != nil {
		return err
	}
	sess, err := lib.StartSession(dir, lib.AllChecksOptions())
	if err != nil {
		return err
	}
	defer sess.Close()
	sess.DidOpen("a.lua", a)
	sess.Sync()
	got := map[string]bool{}
	for _, d := range sess.DiagView()["a.lua"] {
		if t := d.ErrType(); t == 2 || t == 3 {
			got[fmt.Sprintf("t%d@%s", t, locOfRange(d.Range))] = true
		}
	}
	var l []string
	for k := range got {
		l = append(l, k)
	}
	sort.Strings(l)
	res.Count("require-world", true)
	res.Dist("require-world")
	if g, want := strings.Join(l, " "), "t2@4:26:4:27 t2@5:6:5:7"; g != want {
		res.AddViolation("impl-vs-spec", fmt.Sprintf("a.lua requires the module b and reads a global b that no file defines: undefined-variable diagnostics [%s], expected [%s]", g, want), "-- a.lua\n"+a, false)
	}
	return nil
}

// libraryAlias: documented exemption - the local is an alias of a library name or of one of its members
// ('local p = print', 'local c = (print)', 'local f = print.f')
func libraryAlias(init string) bool {
	for _, pre := range []string{"name:", "member:"} {
		if strings.HasPrefix(init, pre) && c07Builtins[strings.TrimPrefix(init, pre)] {
			return true
		}
	}
	return false
}

func keysOf(m map[string]bool) []string {
	var out []string
	for k := range m {
		out = append(out, k)
	}
	sort.Strings(out)
	return out
}
