package main

import (
	"fmt"
	"strings"

	"verifharness/lib"
)

func init() { register("C03", runC03) }

var luaKeywords = map[string]bool{"and": true, "break": true, "do": true, "else": true, "elseif": true, "end": true, "false": true, "for": true,
	"function": true, "goto": true, "if": true, "in": true, "local": true, "nil": true, "not": true, "or": true, "repeat": true, "return": true,
	"then": true, "true": true, "until": true, "while": true}

// tokenClass maps a generated token text to the grammar's terminal.
func tokenClass(t string) string {
	c := t[0]
	switch {
	case luaKeywords[t]:
		return t
	case c == '_' || (c >= 'a' && c <= 'z') || (c >= 'A' && c <= 'Z'):
		return "Name"
	case c >= '0' && c <= '9', c == '.' && len(t) > 1 && t[1] >= '0' && t[1] <= '9':
		return "Numeral"
	case c == '"' || c == '\'', strings.HasPrefix(t, "[[") || strings.HasPrefix(t, "[="):
		return "String"
	}
	return t
}

// numeral forms that are valid Lua but overflow float64 (the former finding C03-K3: reported 'not a number')
func isOverflowNumeral(t string) bool {
	return t == "1e999" || t == "9e999" || t == "1E400" || t == "123456789e400" || t == "0.1e1000"
}

func runC03(res *lib.Result, tier string, seed int64, args []string) error {
	nProg, nMut, nSoup := 1500, 6, 1500
	if tier == "thorough" {
		nProg, nMut, nSoup = 15000, 8, 30000
	}
	res.Rule = "programs derived production by production from the reference grammar (valid by construction, random white space / comments / line ends between tokens, every numeral and string form), each with single-token mutants (delete, duplicate, swap, keyword substitution) classified valid/invalid by the Lean grammar oracle (S-ebnf recogniser), plus token soups and raw bytes; the real parser (CreateParser+BeginAnalyze) vs the Lean parser model (error count, error locations, whole AST with locations) and vs the oracle's accept bit; non-trivial = at least 3 tokens; distinct by source text"
	drv, err := lib.StartDriver()
	if err != nil {
		return err
	}
	defer drv.Close()
	root := lib.NewRng(uint64(seed))
	prodHits := map[string]int{}
	// toks == nil: no oracle (soups / raw bytes): implementation vs model only
	check := func(kind string, toks []string, src []byte, desc string) error {
		diff, unmod, nerr, err := compareParse(drv, src)
		if err != nil {
			return err
		}
		res.Count(string(src), len(toks) >= 3 || (toks == nil && len(src) > 6))
		res.Dist(kind)
		if unmod {
			res.Dist("unmodelled(gbk-or-reentrant)")
			return nil
		}
		caseText := fmt.Sprintf("%s %q", desc, string(src))
		if len(toks) > 0 && toks[0] == "#" {
			// a first line that starts with '#' is skipped by the reference loader too (shebang rule):
			// the token-level oracle does not apply; implementation vs model only
			res.Dist("first-line-hash")
			toks = nil
		}
		if toks == nil {
			if diff != "" {
				res.AddViolation("impl-vs-model", "parser: "+diff, caseText, true)
			}
			return nil
		}
		classes := make([]string, len(toks))
		overflow := false // counted only: such numerals must be accepted like any other
		for i, t := range toks {
			classes[i] = tokenClass(t)
			overflow = overflow || isOverflowNumeral(t)
		}
		if overflow {
			res.Dist("numeral.overflows-float64")
		}
		ans, err := drv.Ask("recog " + lib.Hex([]byte(strings.Join(classes, "\n"))))
		if err != nil {
			return err
		}
		if len(ans) != 3 {
			return fmt.Errorf("bad recog answer %q", ans)
		}
		valid, relaxed := ans[0] == '1', ans[1] == '1'
		if valid != (ans[2] == '1') {
			// `f` newline `(g)()`: derivable from the EBNF, but the manual resolves it as one call; left out
			res.Dist(kind + ".ambiguous-juxtaposition")
			if diff != "" {
				res.AddViolation("impl-vs-model", "parser: "+diff, caseText, true)
			}
			return nil
		}
		if kind == "valid" && !valid {
			return fmt.Errorf("generator/oracle disagreement: a generated program is rejected by S-ebnf: %s", caseText)
		}
		if valid {
			res.Dist(kind + ".oracle-valid")
		} else {
			res.Dist(kind + ".oracle-invalid")
		}
		failing := (valid && nerr > 0) || (!valid && nerr == 0 && !relaxed)
		if diff != "" {
			res.AddViolation("impl-vs-model", "parser: "+diff, caseText, !failing)
			return nil
		}
		switch {
		case valid && nerr > 0:
			res.AddViolation("impl-vs-spec", fmt.Sprintf("valid chunk (S-ebnf derives it) reported with %d syntax error(s)", nerr), caseText, false)
		case !valid && nerr == 0:
			if relaxed {
				res.HitKnown("C03-K1", "an assignment whose target is a parenthesised expression or a call ('(a) = 1', 'a, f() = 1, 2') is accepted: checkVar replaces it by BadExpr without recording an error", caseText)
			} else {
				res.AddViolation("impl-vs-spec", "invalid chunk (S-ebnf does not derive it) reported clean", caseText, false)
			}
		}
		return nil
	}
	// corpus / canonical known-finding replays first
	for _, line := range lib.CorpusLines("C03") {
		toks := strings.Fields(line)
		if err := check("corpus", toks, []byte(strings.Join(toks, " ")), "corpus"); err != nil {
			return err
		}
	}
	// malformed numerals the lexer keeps as ONE token (Lua 5.4 §3.1 + LuaJIT's LL / ULL suffixes): each must be a
	// syntax error wherever a numeral may stand (the token-level grammar oracle cannot judge the spelling of a numeral)
	for k, m := range []string{"0x", "0x.", "0xl", "0xL", "0xu", "0xU", "0xull", "0xll", "3e", "3E", "0x1p", "1e+", "1e-", "0xp1", "0x.p1", "1..2", "0x1.p", "3ee1", "1e5ll", "0x.ull", "0xx1", "1.2.3", "0x1p+"} {
		for _, tpl := range []string{"return %s", "local v = %s", "f(1, %s)", "t[%s] = 1"} {
			src := []byte(fmt.Sprintf(tpl, m))
			diff, unmod, nerr, err := compareParse(drv, src)
			if err != nil {
				return err
			}
			res.Count(string(src), true)
			res.Dist("malformed-numeral")
			caseText := fmt.Sprintf("malformed numeral %d %q", k, string(src))
			if !unmod && diff != "" {
				res.AddViolation("impl-vs-model", "parser: "+diff, caseText, nerr > 0)
			}
			if nerr == 0 {
				res.AddViolation("impl-vs-spec", "a malformed numeral is reported clean", caseText, false)
			}
		}
	}
	// fixed invalid chunks (every tier; space-separated tokens, judged by the grammar oracle like every other program):
	// names that are no plain identifier where the grammar wants one
	for _, line := range []string{"local function a . b ( ) end", "local function a : b ( ) end", "local function a . b . c : d ( x , ... ) return x end", "local function ( ) end",
		"local a . b = 1", "for a . b = 1 , 2 do end", "for a . b in pairs ( t ) do end", "function f ( a . b ) end", "local function f ( a , ) end", "x = function f ( ) end",
		"goto 1", ":: a . b ::", "return return", "function a : b . c ( ) end", "function a : b : c ( ) end", "local function f ( ... , a ) end"} {
		toks := strings.Fields(line)
		if err := check("fixed-invalid", toks, []byte(line), "fixed invalid chunk"); err != nil {
			return err
		}
	}
	// comment spellings that look like the start of a long bracket but are short comments (or long ones directly followed
	// by code): all these chunks are valid
	for k, src := range []string{"--[=] see note\nlocal a = 1\n", "--[==== section ====]\nlocal a = 1\n", "local a = 1 --[= x\nreturn a", "--[=", "--[ x ]\nreturn 1", "--]] x\nreturn 1",
		"return 1 --[==", "--[=[ x ]=]return 1", "--[[ ]]--[[ ]]return 1", "--[==[\n]]\n]=]\n]==] return 1", "local a = 1 --[\nreturn a", "--[=[ --[[ ]=] return 1", "--\nreturn 1", "---[[ x\nreturn 1"} {
		diff, unmod, nerr, err := compareParse(drv, []byte(src))
		if err != nil {
			return err
		}
		res.Count(src, true)
		res.Dist("comment-spelling")
		caseText := fmt.Sprintf("comment spelling %d %q", k, src)
		if !unmod && diff != "" {
			res.AddViolation("impl-vs-model", "parser: "+diff, caseText, nerr == 0)
		}
		if nerr > 0 {
			res.AddViolation("impl-vs-spec", fmt.Sprintf("valid chunk (only a comment spelling is unusual) reported with %d syntax error(s)", nerr), caseText, false)
		}
	}
	for i := 0; i < nProg; i++ {
		r := root.Fork(uint64(i))
		g, toks := genProgram(r, 4)
		for k, v := range g.hits {
			prodHits[k] += v
		}
		src := renderTokens(r, toks)
		if i < 2 {
			res.Sample(map[string]string{"kind": "valid", "source": src})
		}
		if err := check("valid", toks, []byte(src), "valid"); err != nil {
			return err
		}
		for m := 0; m < nMut; m++ {
			mt, desc := mutateTokens(r, toks)
			if len(mt) == 0 {
				continue
			}
			msrc := renderTokens(r, mt)
			if i == 0 && m == 0 {
				res.Sample(map[string]string{"kind": "mutant", "mutation": desc, "source": msrc})
			}
			if err := check("mutant", mt, []byte(msrc), desc); err != nil {
				return err
			}
		}
	}
	for i := 0; i < nSoup; i++ {
		r := root.Fork(uint64(9000000 + i))
		var src []byte
		if r.Chance(1, 5) {
			src = genRawBytes(r, 30)
		} else {
			src = []byte(genSoup(r, 14))
		}
		if err := check("soup", nil, src, "soup"); err != nil {
			return err
		}
	}
	for k, v := range prodHits {
		res.Distribution["prod."+k] = v
	}
	return nil
}

func plainOf(src []byte) string {
	d, _, _ := lib.ParseDump(src)
	return lib.Trunc(d, 120)
}
