package main

import (
	"fmt"
	"os"
	"path/filepath"
	"sort"
	"strings"

	"verifharness/lib"
)

func init() { register("C20", runC20) }

// planted instances and near-misses of every pattern; %v = a variable name
var c20Plants = []string{
	// 5 duplicate key
	"local t%d = { a = 1, b = 2, a = 3 }", "local t%d = { a = 1, b = 2, c = 3 }", "local t%d = { [1] = 1, [1] = 2 }", "local t%d = { [1] = 1, [\"1\"] = 2 }",
	"local t%d = { x = 1, [\"x\"] = 2 }", "local t%d = { [k] = 1, [k] = 2 }", "local t%d = { 1, 2, a = 1 }", "local t%d = { a = { a = 1 }, b = { a = 2 } }",
	// 5: string keys against name / integer keys with the same text, the empty string key, literal keys the check does not look at
	"local t%d = { [\"!k\"] = 1, [k] = 2 }", "local t%d = { [\"#int1\"] = 1, [1] = 2 }", "local t%d = { [\"\"] = 1, [\"\"] = 2 }", "local t%d = { [\"\"] = 1, x = 2 }",
	"local t%d = { [true] = 1, [true] = 2 }", "local t%d = { [1.5] = 1, [1.50] = 2 }", "local t%d = { [-1] = 1, [-1] = 2 }", "local t%d = { [-1] = 1, [1] = 2 }", "local t%d = { [k] = 1, [\"k\"] = 2, k = 3 }",
	// 5: boolean, float (by value) and unary-operator keys
	"local t%d = { [1.5] = 1, [15e-1] = 2, [2.5] = 3 }", "local t%d = { [true] = 1, [false] = 2, [true] = 3 }", "local t%d = { [not true] = 1, [not true] = 2, [not false] = 3 }",
	"local t%d = { [-k] = 1, [-k] = 2 }", "local t%d = { [- 1] = 1, [-1] = 2, [~1] = 3, [~1] = 4 }", "local t%d = { [#\"ab\"] = 1, [#\"ab\"] = 2, [#\"abc\"] = 3 }", "local t%d = { [2.5] = 1, [-2.5] = 2, [- -2.5] = 3 }",
	"local t%d = { [1] = 1, [1.0] = 2, [\"1.0\"] = 3, [true] = 4, [\"true\"] = 5 }", "local t%d = { [0.5] = 1, [.5] = 2, [5e-1] = 3, [0.50] = 4 }",
	"local t%d = { [1] = 1, [2] = 2, [1] = 3, [2] = 4 }", "local t%d = { [f()] = 1, [f()] = 2 }", "local t%d = { [M.a] = 1, [M.a] = 2 }",
	// 7 assignment arity
	"%v, %v = 1, 2, 3", "%v, %v = 1", "%v, %v = f()", "%v, %v = 1, 2", "%v = 1, 2", "%v, %v, %v = 1, %v",
	// 8 local arity
	"local p%d, q%d = 1, 2, 3", "local p%d, q%d = 1", "local p%d, q%d = f()", "local p%d, q%d = ...", "local p%d = 1, 2", "local p%d, q%d",
	// 7 / 8 with a multi-valued expression that is not the last one
	"local p%d, q%d, r%d = f(), 1", "local p%d, q%d, r%d = ..., 2", "%v, %v, %v = f(), 1", "%v, %v, %v = (f()), 2", "local p%d, q%d, r%d = %v + 1, 2",
	"local p%d, q%d, r%d = 1, f()", "%v, %v, %v = 1, ...", "local p%d, q%d, r%d = f(), f()", "local p%d, q%d = (f())", "local p%d, q%d = -%v",
	// 13 duplicate parameter
	"local function f%d(a, b, a) return a end", "local function f%d(a, b, c) return a end", "local function f%d(a, a, a) return a end", "local function f%d(_, _) end",
	"local g%d = function(x, y, x) end", "function M.m%d(self, self) end",
	"local function f%d(a, _, a) return a end", "local function f%d(a, b, _, b, a) return a, b end", "local function f%d(_, a, _, a) end", "local function f%d(a, a, _) end", "function M:n%d(self) end",
	// 14 same operands
	"if %v == %v then end", "if %v.f == %v.f then end", "if %v < %v then end", "local r%d = %v and %v", "local r%d = %v or %v", "if %v.f == %v[\"f\"] then end",
	"local c%d = %v .. %v", "local c%d = %v + %v", "local c%d = %v * %v", "local c%d = %v - %v", "local c%d = %v / %v", "local c%d = %v // %v", "local c%d = %v %% %v", "local c%d = %v ^ %v",
	"local c%d = %v & %v", "local c%d = %v | %v", "local c%d = %v ~ %v", "local c%d = %v << %v", "local c%d = %v >> %v", "local c%d = %v <= %v", "local c%d = %v >= %v", "local c%d = %v > %v", "local c%d = %v ~= %v",
	"local c%d = %v.f .. %v.f", "local c%d = M:m1() == M:m1()", "local c%d = M:m1() == M:m2()",
	"local c%d = M[1] == M[2]", "local c%d = M[%v + 1] < M[%v - 1]", "local c%d = M[1].x ~= M[2].x", "local c%d = M[f()] or M[f(1)]", "local c%d = M.x == M.x", "local c%d = M[1] == M[1]", "local c%d = M[%v] == M[%v]",
	"local c%d = %v == \"!%v\"", "local c%d = M[\"b.c\"] == M.b.c", "local c%d = M.b.c == M[\"b\"].c", "local c%d = (M).x == M.x", "local c%d = (M.x) == (M).x", "local c%d = M[(%v)] == M[%v]", "local c%d = \"#q\" == \"#q\"",
	"local c%d = nil == nil", "local c%d = not %v == not %v", "local c%d = (f()) == f()", "local c%d = ... == ...", "local c%d = M:m1() == M.m1()",
	"if f() == f() then end", "if 1 == 1 then end", "if \"s\" == \"s\" then end", "if (%v) == %v then end", "if #%v == #%v then end", "if %v + 1 == %v + 1 then end",
	// 15 / 16
	"local o%d = %v or true", "local o%d = true or %v", "local o%d = %v or false", "local a%d = %v and false", "local a%d = false and %v", "local a%d = %v and true",
	"local o%d = (%v or true)", "if %v or true then end",
	// 19 repeated if condition
	"if %v then elseif %v then end", "if %v == 1 then elseif %v == 2 then end", "if %v == 1 then elseif %v == 1 then end", "if f(1) then elseif f(1) then end",
	"if %v then elseif not %v then end", "if %v.a then elseif %v.a then else end", "if nil then elseif nil then end", "if true then elseif true then end", "if 1 then elseif 1 then end", "if \"s\" then elseif \"s\" then end", "if ... then elseif ... then end",
	"if M:m1() then elseif M:m2() then end", "if M:m1() then elseif M:m1() then end", "if M.m1() then elseif M.m2() then end", "if M:m1(%v) then elseif M:m1(%v) then end",
	"if M:m1() then elseif M.m1() then end", "if M.a:m1(1) then elseif M.b:m1(1) then end", "if %v:m1() then elseif %v:m1() then end", "if f(%v) then elseif f(%v, 1) then end",
	"if %v then elseif vc then elseif %v then end", "if f{1} then elseif f{1} then end", "if f\"s\" then elseif f\"s\" then end",
	// 19: the else branch is not a condition; float conditions are the same when their values are
	"if true then f(1) else f(2) end", "if %v then elseif true then f(1) else f(2) end", "if true then elseif true then else end", "if %v then else end",
	"if %v == 0.1 then elseif %v == 0.1000001 then end", "if %v == 1.5 then elseif %v == 1.50 then end", "if %v == 1e2 then elseif %v == 100.0 then end", "if %v == 0.5 then elseif %v == 5e-1 then end", "if %v == 0x.8 then elseif %v == 0x.8 then end",
	// 20 self assignment
	"%v = %v", "%v.f = %v.f", "%v[1] = %v[1]", "%v, %v = %v, %v", "%v = (%v)", "%v.f = %v.g",
	"M[0.1] = M[0.1000001]", "M[2.5] = M[25e-1]",
	"va, vb = vc, vb", "M.x, va = vb, va", "va, vb = va, vc", "va, vb, vc = va, vb, vc", "va, vb, vc = vb, vb, vc", "va.f, vb = va.f, vc",
	// 21 float equality
	"if %v == 1.5 then end", "if 0.1 ~= %v then end", "if %v == 1 then end", "if %v < 1.5 then end", "if %v == 1e2 then end", "local e%d = %v == 0x.8",
	// 21 near-misses: a float literal as the LEFT (or right) operand of an operator that is no equality test
	"local e%d = 0.5 * %v", "local e%d = %v * 0.5", "if 1.5 < %v then end", "local e%d = 2.0 ^ %v", "local e%d = 0.25 .. \"s\"", "local e%d = 0.5 or %v", "local e%d = %v and 0.5",
	"local e%d = { w = 0.5 + %v, function() return 1.0 / %v end }", "if 1.5 <= %v then elseif 2.5 >= %v then end",
}

func genC20Program(r *lib.Rng) string {
	vars := []string{"va", "vb", "vc"}
	var lines []string
	lines = append(lines, "local va, vb, vc, k, M = 1, 2, 3, 4, {}", "local function f(...) return ... end")
	n := 0
	indent := ""
	open := 0
	cnt := 3 + r.Intn(8)
	for i := 0; i < cnt; i++ {
		// random nesting: inside closures, loops, conditions
		if open < 3 && r.Chance(1, 4) {
			switch r.Intn(4) {
			case 0:
				lines = append(lines, indent+"do")
			case 1:
				lines = append(lines, indent+"local function w"+fmt.Sprint(i)+"()")
			case 2:
				lines = append(lines, indent+"for i = 1, 2 do")
			default:
				lines = append(lines, indent+"while f() do")
			}
			open++
			indent += "  "
		}
		p := c20Plants[r.Intn(len(c20Plants))]
		// same variable everywhere in one plant unless the plant is a near miss by construction
		v1 := vars[r.Intn(len(vars))]
		v2 := v1
		if r.Chance(1, 3) {
			v2 = vars[r.Intn(len(vars))]
		}
		var sb strings.Builder
		k := 0
		for j := 0; j < len(p); j++ {
			if p[j] == '%' && j+1 < len(p) {
				switch p[j+1] {
				case 'v':
					if k%2 == 0 {
						sb.WriteString(v1)
					} else {
						sb.WriteString(v2)
					}
					k++
					j++
					continue
				case '%':
					sb.WriteByte('%')
					j++
					continue
				case 'd':
					n++
					sb.WriteString(fmt.Sprint(n))
					j++
					continue
				}
			}
			sb.WriteByte(p[j])
		}
		lines = append(lines, indent+sb.String())
		if open > 0 && r.Chance(1, 3) {
			indent = indent[:len(indent)-2]
			lines = append(lines, indent+"end")
			open--
		}
	}
	for open > 0 {
		indent = indent[:len(indent)-2]
		lines = append(lines, indent+"end")
		open--
	}
	lines = append(lines, "print(va, vb, vc, k, M, f)")
	return strings.Join(lines, "\n") + "\n"
}

const c20K1 = "identical operands of a comparison / and / or that are not plain access paths (a literal, a call, an operator or a computed index occurs in them: 1 == 1, t[1] == t[1], f() == f(), x + 1 == x + 1) are not reported as type 14: cgBinopExp gives up as soon as the operand name contains a '#' placeholder"

var c20Types = map[int]bool{5: true, 7: true, 8: true, 13: true, 14: true, 15: true, 16: true, 19: true, 20: true, 21: true}

func runC20(res *lib.Result, tier string, seed int64, args []string) error {
	nProg := 150
	if tier == "thorough" {
		nProg = 8000
	}
	res.Rule = "valid programs into which instances and near-misses of each documented pattern (duplicate table key, assignment / local arity, duplicate parameter, identical operands, or-true / and-false, repeated if condition, self-assignment, float equality) are planted at random nesting depths (blocks, closures, loops); the real server's diagnostics of types 5, 7, 8, 13-16, 19-21 (type and range) vs the Lean model of the checks run on the model parser's AST, compared as multisets; non-trivial = at least one planted instance is reported; distinct by program"
	drv, err := lib.StartDriver()
	if err != nil {
		return err
	}
	defer drv.Close()
	dir := lib.ScratchDir("c20")
	defer os.RemoveAll(dir)
	root := lib.NewRng(uint64(seed))
	// corpus first: the canonical replays of the two finding classes and of the repaired false positives
	corpus, _ := filepath.Glob("/verif/corpus/C20/*.case")
	sort.Strings(corpus)
	for pi := -len(corpus); pi < nProg; pi++ {
		var src string
		if pi < 0 {
			b, err := os.ReadFile(corpus[pi+len(corpus)])
			if err != nil {
				return err
			}
			src = string(b)
			res.Dist("corpus")
		} else {
			src = genC20Program(root.Fork(uint64(pi)))
		}
		ans, err := drv.Ask(fmt.Sprintf("pat %s %s", lib.Hex([]byte(src)), lib.ConvTableFor([]byte(src))))
		if err != nil {
			return err
		}
		if strings.HasPrefix(ans, "ERR") {
			return fmt.Errorf("generator produced an invalid program (%s):\n%s", ans, src)
		}
		var model, spec []string
		body := strings.TrimPrefix(strings.TrimPrefix(ans, "OK"), " ")
		parts := strings.SplitN(body, " | ", 2)
		if m := strings.TrimSpace(parts[0]); m != "" && m != "|" {
			model = strings.Split(strings.TrimSuffix(m, " |"), ";")
		}
		if len(parts) == 2 && strings.TrimSpace(parts[1]) != "" {
			spec = strings.Split(strings.TrimSpace(parts[1]), ";")
		}
		if err := lib.WriteWorkspace(dir, map[string]string{"main.lua": src}); err != nil {
			return err
		}
		lib.Breadcrumb("C20 program:\n" + src)
		sess, err := lib.StartSession(dir, lib.AllChecksOptions())
		if err != nil {
			return err
		}
		var impl []string
		for _, d := range sess.DiagView()["main.lua"] {
			if c20Types[d.ErrType()] {
				impl = append(impl, fmt.Sprintf("%d@%d:%d:%d:%d", d.ErrType(), d.Range.Start.Line, d.Range.Start.Character, d.Range.End.Line, d.Range.End.Character))
			}
		}
		sess.Close()
		sort.Strings(impl)
		sort.Strings(model)
		res.Count(src, len(impl) > 0)
		for _, m := range model {
			res.Dist("type" + m[:strings.Index(m, "@")])
		}
		if pi >= 0 && pi < 2 {
			res.Sample(map[string]interface{}{"program": src, "reports": impl})
		}
		if strings.Join(impl, " ") != strings.Join(model, " ") {
			res.AddViolation("impl-vs-model", fmt.Sprintf("pattern diagnostics %v, model predicts %v", impl, model), src, false) // the model is proved equal to the documented patterns (Props/C20), so a program on which the server differs is a failing input
			continue
		}
		// types 14 and 5 against the full-width specification (Spec/Pat.lean): the model may only report less,
		// and what it leaves out is the recorded class K1 (Props/C20 sameOperands_exact); type 5 is exact (dupKeys_iff_spec)
		inSpec := map[string]bool{}
		for _, x := range spec {
			inSpec[x] = true
		}
		inModel := map[string]bool{}
		for _, x := range model {
			inModel[x] = true
			if (strings.HasPrefix(x, "14@") || strings.HasPrefix(x, "5@")) && !inSpec[x] {
				res.AddViolation("model-vs-spec", fmt.Sprintf("report %s is not an instance of the documented pattern (specification reports %v)", x, spec), src, false)
			}
		}
		for _, x := range spec {
			if inModel[x] {
				continue
			}
			if strings.HasPrefix(x, "14@") {
				res.HitKnown("C20-K1", c20K1, src+"\nnot reported: "+x)
			} else {
				// type 5: the model reports exactly what the specification asks for (theorem dupKeys_iff_spec; the former
				// class K2 — boolean, float and negated keys — was repaired)
				res.AddViolation("model-vs-spec", fmt.Sprintf("the specification asks for %s, the model does not report it", x), src, false)
			}
		}
	}
	return nil
}
