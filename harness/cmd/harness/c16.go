package main

import (
	"fmt"
	"os"
	"sort"
	"strings"

	"verifharness/lib"
)

func init() { register("C16", runC16) }

// topTypeGroups: the type dumps M[…] that stand at bracket depth 0 of a statement dump, in order
func topTypeGroups(d string) []string {
	var out []string
	depth, start := 0, -1
	for i := 0; i < len(d); i++ {
		switch d[i] {
		case '[':
			if depth == 0 && i > 0 && d[i-1] == 'M' {
				start = i - 1
			}
			depth++
		case ']':
			depth--
			if depth == 0 && start >= 0 {
				out = append(out, d[start:i+1])
				start = -1
			}
		}
	}
	return out
}

// normSingleUnion removes unions with a single member that stand INSIDE a type (parentheses around one type):
// M[x] → x, applied innermost first; the outermost M[…] of a type is kept
func normSingleUnion(d string) string {
	if !strings.HasPrefix(d, "M[") || !strings.HasSuffix(d, "]") {
		return d
	}
	inner := d[2 : len(d)-1]
	for {
		changed := false
		depth := 0
		for i := 0; i+1 < len(inner); i++ {
			if inner[i] == 'M' && inner[i+1] == '[' {
				// find the matching bracket and whether the group has a top-level comma
				j, dd, comma := i+2, 1, false
				for ; j < len(inner) && dd > 0; j++ {
					switch inner[j] {
					case '[':
						dd++
					case ']':
						dd--
					case ',':
						if dd == 1 {
							comma = true
						}
					}
				}
				if dd == 0 && !comma {
					inner = inner[:i] + inner[i+2:j-1] + inner[j:]
					changed = true
					break
				}
			}
			_ = depth
		}
		if !changed {
			break
		}
	}
	return "M[" + inner + "]"
}

// ---------------------------------------------------------------------------------------------------
// generator: annotation lines derived from the grammar of docs/manual/annotate.md, together with the
// structure the documentation gives them (in the canonical dump format shared with the Lean driver)

type aGen struct {
	r *lib.Rng
	// features of the generated line (decide finding classes)
	nestedArray, parenUnion, hasFun, hasConst bool
}

var aNames = []string{"string", "number", "boolean", "any", "People", "Man", "Car", "T", "mod.Cls", "integer", "void", "Vec10", "Item20"}
var aIdents = []string{"name", "age", "one", "x", "cb", "list", "sep", "people", "p10", "x0"}

func (g *aGen) sp() string {
	switch g.r.Intn(7) {
	case 0:
		return ""
	case 1:
		return "  "
	case 2:
		return "\t" // a tab separates annotation tokens like a space does
	}
	return " "
}

// single type: text and expected dump (of the parser's shape: parserSingleType result)
func (g *aGen) single(depth int) (string, string) {
	k := g.r.Intn(12)
	if depth <= 0 && k >= 4 {
		k = g.r.Intn(4)
	}
	var text, dump string
	base := true
	switch k {
	case 0, 1, 2:
		n := aNames[g.r.Intn(len(aNames))]
		text, dump = n, "N:"+lib.Hex([]byte(n))
	case 3:
		text, dump = "table", "TE"
	case 4, 5:
		kt, kd := g.union(depth-1, 2)
		vt, vd := g.union(depth-1, 2)
		text = "table<" + g.sp() + kt + g.sp() + "," + g.sp() + vt + g.sp() + ">"
		dump = "T[" + kd + "," + vd + "]"
	case 6, 7:
		g.hasFun = true
		np := g.r.Intn(3)
		var ps, pd []string
		for i := 0; i < np; i++ {
			n := aIdents[g.r.Intn(len(aIdents))]
			opt := g.r.Chance(1, 5)
			if g.r.Chance(1, 6) {
				// parameter without a type: any
				t := n
				if opt {
					t += "?"
				}
				ps = append(ps, t)
				o := ""
				if opt {
					o = "?"
				}
				pd = append(pd, lib.Hex([]byte(n))+o+":N:"+lib.Hex([]byte("any")))
				continue
			}
			tt, td := g.union(depth-1, 2)
			t := n
			o := ""
			if opt {
				t += "?"
				o = "?"
			}
			ps = append(ps, t+g.sp()+":"+g.sp()+tt)
			pd = append(pd, lib.Hex([]byte(n))+o+":"+td)
		}
		text = "fun(" + strings.Join(ps, g.sp()+","+g.sp()) + ")"
		var rd []string
		if g.r.Chance(1, 2) {
			rt, rdump := g.union(depth-1, 1)
			text += g.sp() + ":" + g.sp() + rt
			rd = append(rd, rdump)
		}
		dump = "F[" + strings.Join(pd, ",") + "][" + strings.Join(rd, ",") + "]"
		base = false
		if len(rd) > 0 {
			// a fun type with return types swallows a following ", T" / "| T" / "[]": nested ones are parenthesised
			if depth < 3 {
				g.parenUnion = true
				return "(" + text + ")", "M[" + dump + "]"
			}
			return text, dump
		}
	case 8:
		// parenthesised type
		it, id := g.union(depth-1, 2)
		text, dump = "("+g.sp()+it+g.sp()+")", id
		g.parenUnion = true
	case 9:
		g.hasConst = true
		c := []string{"r", "w", "rb+", "a b"}[g.r.Intn(4)]
		if g.r.Chance(1, 2) {
			text, dump = "'\""+c+"\"'", "C:"+lib.Hex([]byte(c))+":1"
		} else {
			text, dump = "\""+c+"\"", "C:"+lib.Hex([]byte(c))+":0"
			if len(c) <= 2 {
				dump = "C:" + lib.Hex([]byte(c)) + ":0"
			}
		}
	default:
		// array of a single type (documented: TYPE[])
		it, id := g.single(depth - 1)
		if strings.HasPrefix(id, "A[") {
			g.nestedArray = true
		}
		if strings.HasPrefix(id, "F[") && strings.Contains(it, ")") && !strings.HasSuffix(it, ")") {
			// fun(...) : T[] binds the [] to the return type; avoid the ambiguity
			return it, id
		}
		return it + "[]", "A[" + id + "]"
	}
	_ = base
	return text, dump
}

// union: 1..max singles joined by '|'
func (g *aGen) union(depth, max int) (string, string) {
	n := 1 + g.r.Intn(max)
	var ts, ds []string
	for i := 0; i < n; i++ {
		t, d := g.single(depth)
		ts = append(ts, t)
		ds = append(ds, d)
		if strings.HasPrefix(d, "F[") && !strings.HasSuffix(d, "[]") {
			break // a fun type with return types would swallow what follows
		}
	}
	return strings.Join(ts, g.sp()+"|"+g.sp()), "M[" + strings.Join(ds, ",") + "]"
}

// printed form per the documentation of TypeConvertStr is not specified; only round trips are checked

func (g *aGen) comment() (string, string) {
	switch g.r.Intn(3) {
	case 0:
		return "", ""
	case 1:
		return " @a comment", "a comment"
	}
	return " @说明 text", "说明 text"
}

// line: (text after "-@", expected dump without the P= part)
func (g *aGen) line() (string, string) {
	hexS := func(s string) string { return "#" + lib.Hex([]byte(s)) }
	switch g.r.Intn(11) {
	case 0, 1:
		n := 1 + g.r.Intn(2)
		var ts, ds []string
		for i := 0; i < n; i++ {
			pre, fl := "", "00"
			switch g.r.Intn(8) {
			case 0:
				pre, fl = "const ", "10"
			}
			t, d := g.union(3, 3)
			ts = append(ts, pre+t)
			ds = append(ds, fl+d)
			if strings.Contains(d, "F[") {
				break
			}
		}
		ct, cd := g.comment()
		return "type " + strings.Join(ts, g.sp()+","+g.sp()) + ct, "type " + strings.Join(ds, ";") + " " + hexS(cd)
	case 2:
		n := aNames[4+g.r.Intn(3)]
		var ps, pd []string
		for k := g.r.Intn(3); k > 0; k-- {
			p := aNames[4+g.r.Intn(4)]
			ps = append(ps, p)
			if p != n {
				pd = append(pd, lib.Hex([]byte(p)))
			}
		}
		ct, cd := g.comment()
		t := "class " + n
		if len(ps) > 0 {
			t += g.sp() + ":" + g.sp() + strings.Join(ps, g.sp()+","+g.sp())
		}
		return t + ct, "class " + lib.Hex([]byte(n)) + " " + strings.Join(pd, ",") + " " + hexS(cd)
	case 3, 4:
		sc, sct := 0, ""
		switch g.r.Intn(5) {
		case 0:
			sc, sct = 0, "public "
		case 1:
			sc, sct = 1, "protected "
		case 2:
			sc, sct = 2, "private "
		}
		n := aIdents[g.r.Intn(len(aIdents))]
		if g.r.Chance(1, 5) {
			// a field may be named with a word that is a keyword of the annotation syntax (type, class, field …)
			n = []string{"type", "class", "field", "param", "return", "alias", "table", "fun", "enum"}[g.r.Intn(9)]
		}
		t, d := g.union(3, 3)
		ct, cd := g.comment()
		return "field " + sct + n + " " + t + ct, fmt.Sprintf("field %d ", sc) + lib.Hex([]byte(n)) + " 0 " + d + " " + hexS(cd)
	case 5, 6:
		n := aIdents[g.r.Intn(len(aIdents))]
		opt := g.r.Chance(1, 5)
		t, d := g.union(3, 3)
		ct, cd := g.comment()
		txt := "param " + n
		if opt {
			txt += "?"
		}
		return txt + " " + t + ct, "param 0 " + lib.Hex([]byte(n)) + " " + b01s(opt) + " " + d + " " + hexS(cd)
	case 7:
		n := 1 + g.r.Intn(2)
		var ts, ds []string
		for i := 0; i < n; i++ {
			t, d := g.union(3, 2)
			if strings.Contains(d, "F[") {
				ts = append(ts, t)
				ds = append(ds, d)
				break
			}
			// a return type may carry the optional marker
			if g.r.Chance(1, 3) {
				t, d = t+g.sp()+"?", d+"?"
			}
			ts = append(ts, t)
			ds = append(ds, d)
		}
		ct, cd := g.comment()
		return "return " + strings.Join(ts, g.sp()+","+g.sp()) + ct, "return " + strings.Join(ds, ";") + " " + hexS(cd)
	case 8:
		n := "New" + aNames[4+g.r.Intn(3)]
		t, d := g.union(3, 3)
		ct, cd := g.comment()
		return "alias " + n + " " + t + ct, "alias " + lib.Hex([]byte(n)) + " " + d + " " + hexS(cd)
	case 9:
		k := 1 + g.r.Intn(2)
		var ts, ds []string
		for i := 0; i < k; i++ {
			gname := []string{"T", "K", "V"}[i]
			if g.r.Chance(1, 2) {
				p := aNames[4+g.r.Intn(3)]
				ts = append(ts, gname+g.sp()+":"+g.sp()+p)
				ds = append(ds, lib.Hex([]byte(gname))+":"+lib.Hex([]byte(p)))
			} else {
				ts = append(ts, gname)
				ds = append(ds, lib.Hex([]byte(gname))+":"+lib.Hex(nil))
			}
		}
		ct, cd := g.comment()
		return "generic " + strings.Join(ts, g.sp()+","+g.sp()) + ct, "generic " + strings.Join(ds, ",") + " " + hexS(cd)
	default:
		t, d := g.union(3, 2)
		ct, cd := g.comment()
		return "vararg " + t + ct, "vararg " + d + " " + hexS(cd)
	}
}

func b01s(b bool) string {
	if b {
		return "1"
	}
	return "0"
}

// strip the " P=…" tail of a dump
func dropP(d string) string {
	if i := strings.Index(d, " P="); i >= 0 {
		return d[:i]
	}
	return d
}

func runC16(res *lib.Result, tier string, seed int64, args []string) error {
	nLines := 6000
	if tier == "thorough" {
		nLines = 400000
	}
	res.Rule = "annotation lines derived from the grammar of docs/manual/annotate.md (type, class, field, param, return, alias, generic, vararg; unions, arrays, table<K,V>, fun(...) with optional parameters and return lists, parentheses, constant strings, @comments incl. non-ASCII; nesting depth up to 4, varied spacing) and single-token corruptions of them: (1) the real ParserLine (accept / reject, statement kind, every field, the type structure, the remaining comment, TypeConvertStr) = the Lean model; (2) every grammar-derived line is accepted with exactly the structure the documentation gives it; (3) the printed form of every understood type, read again as '---@type', gives the same type (required on the model's canonical fragment, theorem roundtrip; other shapes fall into finding classes); (4) no Go panic other than the parser's own error value; non-trivial = a valid line with a nested type; distinct by line"
	drv, err := lib.StartDriver()
	if err != nil {
		return err
	}
	defer drv.Close()
	root := lib.NewRng(uint64(seed))
	ask := func(line string) (string, error) {
		if line == "" {
			return drv.Ask("annot")
		}
		return drv.Ask("annot " + lib.Hex([]byte(line)))
	}
	for i := 0; i < nLines; i++ {
		r := root.Fork(uint64(i))
		g := &aGen{r: r}
		line, want := g.line()
		if k := strings.Index(line, " "); k > 0 && r.Chance(1, 5) {
			line = line[:k] + "\t" + line[k+1:] // the tag is followed by a tab
		}
		valid := true
		if r.Chance(1, 3) {
			// single-token corruption
			valid = false
			toks := strings.Fields(line)
			k := r.Intn(len(toks))
			switch r.Intn(5) {
			case 0:
				toks = append(toks[:k], toks[k+1:]...)
			case 1:
				toks[k] = []string{"|", "[", "<", ")", ",", "?", "#", "'", "fun", "table<", ":"}[r.Intn(11)]
			case 2:
				toks = append(toks[:k+1], append([]string{toks[k]}, toks[k+1:]...)...)
			case 3:
				if len(toks[k]) > 1 {
					c := r.Intn(len(toks[k]))
					toks[k] = toks[k][:c] + toks[k][c+1:]
				}
			default:
				toks[k] = toks[k] + []string{"[", "]", "(", ">", "|", "."}[r.Intn(6)]
			}
			line = strings.Join(toks, " ")
		}
		lib.Breadcrumb("C16 annotation line: ---@" + line)
		impl := lib.AnnotLineDump(line)
		model, err := ask(line)
		if err != nil {
			return err
		}
		res.Count(line, valid && strings.Count(want, "[") > 2)
		kind := "corrupted"
		if valid {
			kind = "valid." + strings.Fields(line)[0]
		}
		res.Dist(kind)
		if i < 3 {
			res.Sample(map[string]string{"line": "---@" + line, "parsed": lib.Trunc(impl, 200)})
		}
		if strings.HasPrefix(impl, "PANIC") {
			res.AddViolation("crash-or-timeout", "the annotation parser panics with a value that is not its own error type: "+impl, "---@"+line, false)
			continue
		}
		if impl != model {
			// a valid line of the documented syntax that the real parser no longer understands with its documented
			// structure is a failing input of the property itself, not only a broken correspondence
			failing := valid && dropP(impl) != want
			res.AddViolation("impl-vs-model", fmt.Sprintf("real parser %q, model %q", lib.Trunc(impl, 300), lib.Trunc(model, 300)), "---@"+line, !failing)
			if !valid || failing {
				continue
			}
			// the structure is the documented one and only the printed form differs from the model's: go on to the
			// print-and-read step, which may turn the broken correspondence into a failing input of the property
		}
		if !valid {
			res.Dist("corrupted." + strings.Fields(impl + " x")[0])
			continue
		}
		// (2) documented structure
		if dropP(impl) != want {
			caseText := fmt.Sprintf("---@%s\nunderstood as   %s\ndocumented form %s", line, dropP(impl), want)
			// (arrays of arrays used to be excused here: finding K1, repaired)
			res.AddViolation("impl-vs-spec", "a line of the documented syntax is not understood with its documented structure", caseText, false)
			continue
		}
		// (3) print and read again (type-carrying statements)
		if i := strings.Index(impl, " P="); i >= 0 {
			for pi, ph := range strings.Split(impl[i+3:], ";") {
				printed := string(lib.UnHex(ph))
				if printed == "" {
					continue
				}
				again := lib.AnnotLineDump("type " + printed)
				canon, err := drv.Ask("annotcanon " + lib.Hex([]byte("type "+printed)))
				if err != nil {
					return err
				}
				var againPrinted string
				if j := strings.Index(again, " P="); j >= 0 {
					againPrinted = string(lib.UnHex(again[j+3:]))
				}
				res.Dist("roundtrip")
				// the same type: the text prints the same again AND the tree that is read is the tree that was printed
				// (a union in parentheses with a single member is that member)
				sameTree := true
				if groups := topTypeGroups(dropP(impl)); len(groups) == len(strings.Split(impl[i+3:], ";")) {
					if ag := topTypeGroups(dropP(again)); len(ag) == 1 {
						sameTree = normSingleUnion(ag[0]) == normSingleUnion(groups[pi])
					}
				}
				if againPrinted == printed && !strings.Contains(again, "ERR") && sameTree {
					continue
				}
				caseText := fmt.Sprintf("---@%s\nprinted as %q\nread again: %s (prints %q)", line, printed, dropP(again), againPrinted)
				switch {
				case g.hasFun:
					res.HitKnown("C16-K2", "a fun type is printed as 'function(…)' but only 'fun(…)' is read: reading the printed form gives the plain name 'function' and a comment", caseText)
					res.Dist("hit.C16-K2")
				case g.hasConst:
					res.HitKnown("C16-K3", "a quoted constant '\"r\"' is printed as \"r\", which is read back as the unquoted constant r", caseText)
					res.Dist("hit.C16-K3")
				case canon == "canon=1":
					res.AddViolation("impl-vs-spec", "a type of the canonical fragment does not survive print-and-read (theorem roundtrip's premise holds for it)", caseText, false)
				default:
					res.AddViolation("impl-vs-spec", "printing the understood type and reading it again gives a different type", caseText, false)
				}
			}
		}
	}
	return c16E2E(res, tier, root)
}

// ---------------------------------------------------------------------------------------------------
// e2e: a malformed annotation line yields only a warning on that line and disturbs nothing else

type c16Block struct {
	lines []string         // source lines of the block
	annot []int            // indices (within lines) of annotation lines that nothing else depends on
	use   string           // identifier to hover
	keep  map[int][]string // per corruptible line: texts that must remain in the hover of `use`
	must  []string         // texts the hover of `use` must contain in the clean file
}

func c16E2E(res *lib.Result, tier string, root *lib.Rng) error {
	n := 25
	if tier == "thorough" {
		n = 1200
	}
	for wi := 0; wi < n; wi++ {
		r := root.Fork(uint64(8000000 + wi))
		g := &aGen{r: r}
		simple := func() string {
			for {
				t, d := g.union(1, 2)
				if !strings.Contains(d, "F[") && !strings.Contains(d, "C:") {
					return t
				}
			}
		}
		var blocks []c16Block
		nb := 2 + r.Intn(3)
		for b := 0; b < nb; b++ {
			switch r.Intn(4) {
			case 3:
				// a generic function: the names a ---@generic line introduces are types in its own block
				fn := fmt.Sprintf("g%d", b)
				gt, gk := fmt.Sprintf("GT%d", b), fmt.Sprintf("GK%d", b)
				bl := c16Block{use: fn, keep: map[int][]string{}}
				// (a tag the parser does not know stands between the lines: it is no statement, the lines after it keep their places)
				bl.lines = append(bl.lines, "---@generic "+gt+" : string, "+gk, "---@see other", "---@param aa "+gt, "---@param bb "+gk+"[]", "---@return table<string, "+gt+">",
					"local function "+fn+"(aa, bb) return aa end")
				bl.annot = []int{2, 3}
				bl.keep[2] = []string{"bb: " + gk + "[]"}
				bl.keep[3] = []string{"aa: " + gt}
				bl.must = []string{"aa: " + gt, "bb: " + gk + "[]", "->1. table<string, " + gt + ">"}
				blocks = append(blocks, bl)
			case 0:
				cls := fmt.Sprintf("Cls%d", b)
				fields := []string{"fa", "fb", "fc"}
				bl := c16Block{use: fmt.Sprintf("p%d", b), keep: map[int][]string{}}
				bl.lines = append(bl.lines, "---@class "+cls)
				for i, f := range fields {
					bl.lines = append(bl.lines, "---@field "+f+" "+simple())
					bl.annot = append(bl.annot, i+1)
					var others []string
					for _, o := range fields {
						if o != f {
							others = append(others, o+":")
						}
					}
					bl.keep[i+1] = others
				}
				bl.lines = append(bl.lines, "local "+cls+" = {}", "", "---@type "+cls, "local "+bl.use+" = {}")
				blocks = append(blocks, bl)
			case 1:
				fn := fmt.Sprintf("f%d", b)
				bl := c16Block{use: fn, keep: map[int][]string{}}
				t1, t2, t3 := aNames[r.Intn(4)], aNames[r.Intn(4)], aNames[r.Intn(4)]
				// two ---@return lines (the documented way to describe several results): both are kept, in order
				t4 := aNames[r.Intn(4)]
				bl.lines = append(bl.lines, "---@param aa "+t1, "---@param bb "+t2+"[]", "---@return "+t3, "---@return "+t4+"[]",
					"local function "+fn+"(aa, bb) return aa, bb end")
				bl.annot = []int{0, 1}
				bl.keep[0] = []string{"bb: " + t2 + "[]", "->1. " + t3, "->2. " + t4 + "[]"}
				bl.keep[1] = []string{"aa: " + t1, "->1. " + t3, "->2. " + t4 + "[]"}
				bl.must = []string{"aa: " + t1, "bb: " + t2 + "[]", "->1. " + t3, "->2. " + t4 + "[]"}
				blocks = append(blocks, bl)
			default:
				v := fmt.Sprintf("t%d", b)
				bl := c16Block{use: v, keep: map[int][]string{}}
				bl.lines = append(bl.lines, "---@type "+simple(), "local "+v+" = {}")
				bl.annot = []int{0}
				bl.keep[0] = nil
				blocks = append(blocks, bl)
			}
		}
		{
			// fixed block (never the corrupted one): an ---@alias declared in the same comment block as a ---@class, and a
			// variable typed by that alias — the alias is a type like any other
			bl := c16Block{use: "zqx", keep: map[int][]string{}}
			bl.lines = append(bl.lines, fmt.Sprintf("---@class ZqCls%d", wi), "---@field zname string", fmt.Sprintf("---@alias ZqAl%d ZqCls%d | number", wi, wi), "local zqp = {}",
				fmt.Sprintf("---@type ZqAl%d", wi), "local zqx = zqp")
			bl.must = []string{"zname"}
			blocks = append(blocks, bl)
		}
		render := func(cb, cl int, repl string) (string, int, []int) {
			var out []string
			corrLine := -1
			var useCols []int
			for bi, bl := range blocks {
				for li, l := range bl.lines {
					if bi == cb && li == cl {
						corrLine = len(out)
						l = repl
					}
					out = append(out, l)
				}
				out = append(out, "")
			}
			var uses []string
			col := len("print(")
			for _, bl := range blocks {
				uses = append(uses, bl.use)
				useCols = append(useCols, col)
				col += len(bl.use) + 2
			}
			out = append(out, "print("+strings.Join(uses, ", ")+")")
			return strings.Join(out, "\n") + "\n", corrLine, useCols
		}
		type snap struct {
			genericDef []string
			d18        map[string]bool
			other      []string
			hov        []string
		}
		take := func(src string, useCols []int) (snap, error) {
			var sn snap
			dir := lib.ScratchDir(fmt.Sprintf("c16w%d", wi))
			defer os.RemoveAll(dir)
			if err := lib.WriteWorkspace(dir, map[string]string{"main.lua": src}); err != nil {
				return sn, err
			}
			sess, err := lib.StartSession(dir, lib.AllChecksOptions())
			if err != nil {
				return sn, err
			}
			defer sess.Close()
			sess.DidOpen("main.lua", src)
			sess.Sync()
			sn.d18 = map[string]bool{}
			for _, d := range sess.DiagView()["main.lua"] {
				k := fmt.Sprintf("%d:%s", d.Range.Start.Line, d.Message)
				if d.ErrType() == 18 {
					sn.d18[k] = true
				} else {
					sn.other = append(sn.other, fmt.Sprintf("t%d@%s", d.ErrType(), k))
				}
			}
			sort.Strings(sn.other)
			useLine := strings.Count(src, "\n") - 1
			for _, c := range useCols {
				h, err := sess.Hover("main.lua", useLine, c)
				if err != nil {
					return sn, err
				}
				sn.hov = append(sn.hov, h)
			}
			// go-to-definition on a generic name used in the LAST annotation line of its block (---@return table<string, GTn>)
			// leads to the ---@generic line that introduces it
			ls := strings.Split(src, "\n")
			for ln, l := range ls {
				k := strings.Index(l, "---@return table<string, GT")
				if k < 0 {
					continue
				}
				col := k + len("---@return table<string, ")
				locs, err := sess.Definition("main.lua", ln, col+1)
				if err != nil {
					return sn, err
				}
				got := "-"
				if len(locs) > 0 && locs[0].Range.Start.Line < len(ls) {
					got = ls[locs[0].Range.Start.Line]
				}
				if !strings.HasPrefix(got, "---@generic ") {
					sn.genericDef = append(sn.genericDef, fmt.Sprintf("line %d: definition of the generic name in %q leads to %q", ln, l, got))
				}
			}
			return sn, nil
		}
		cleanSrc, _, useCols := render(-1, -1, "")
		lib.Breadcrumb("C16 e2e clean file:\n" + cleanSrc)
		base, err := take(cleanSrc, useCols)
		if err != nil {
			res.AddViolation("crash-or-timeout", err.Error(), cleanSrc, false)
			continue
		}
		// the clean file: every line is documented syntax, none may get an annotation SYNTAX warning, and the names
		// introduced by ---@generic are not "undefined types" (the grammar's sample names People, Car … are not declared
		// anywhere: "not define annotate type" about THEM is expected)
		for bi, bl := range blocks {
			for _, m := range bl.must {
				if bi < len(base.hov) && !strings.Contains(base.hov[bi], m) {
					res.AddViolation("impl-vs-spec", fmt.Sprintf("the hover of %s does not show %q (every documented line of its block is to be understood): %s", bl.use, m, lib.Trunc(base.hov[bi], 300)), cleanSrc, false)
				}
			}
		}
		for _, g := range base.genericDef {
			res.AddViolation("impl-vs-spec", g, cleanSrc, false)
		}
		for k := range base.d18 {
			if strings.Contains(k, "syntax error") || strings.Contains(k, ": GT") || strings.Contains(k, ": GK") || strings.Contains(k, ": ZqAl") || strings.Contains(k, ": ZqCls") {
				res.AddViolation("impl-vs-spec", "a documented annotation line of a clean file gets the warning "+k, cleanSrc, false)
			}
		}
		// corrupt one annotation line so that the real parser rejects it
		cb := r.Intn(nb)
		cl := blocks[cb].annot[r.Intn(len(blocks[cb].annot))]
		orig := blocks[cb].lines[cl]
		var repl string
		for try := 0; try < 20 && repl == ""; try++ {
			toks := strings.Fields(strings.TrimPrefix(orig, "---@"))
			k := 1 + r.Intn(len(toks)-1)
			switch r.Intn(3) {
			case 0:
				toks = toks[:k]
			case 1:
				toks[k] = []string{"|", "[", "<", ")", ",", "table<"}[r.Intn(6)]
			default:
				toks[k] = toks[k] + []string{"[", "|", "<"}[r.Intn(3)]
			}
			cand := strings.Join(toks, " ")
			if lib.AnnotLineDump(cand) == "ERR" {
				repl = "---@" + cand
			}
		}
		if repl == "" {
			continue
		}
		badSrc, corrLine, _ := render(cb, cl, repl)
		caseText := fmt.Sprintf("line %d replaced by %q in\n%s", corrLine, repl, cleanSrc)
		lib.Breadcrumb("C16 e2e " + caseText)
		got, err := take(badSrc, useCols)
		if err != nil {
			res.AddViolation("crash-or-timeout", err.Error(), caseText, false)
			continue
		}
		res.Count("e2e|"+badSrc, true)
		res.Dist("e2e.malformed-line")
		var problems []string
		onLine := 0
		for k := range got.d18 {
			if strings.HasPrefix(k, fmt.Sprintf("%d:", corrLine)) {
				onLine++
			} else if !base.d18[k] {
				problems = append(problems, "new annotation warning elsewhere: "+k)
			}
		}
		for k := range base.d18 {
			if !got.d18[k] && !strings.HasPrefix(k, fmt.Sprintf("%d:", corrLine)) {
				problems = append(problems, "annotation warning of another line disappeared: "+k)
			}
		}
		if onLine == 0 {
			problems = append(problems, "no annotation warning on the malformed line")
		}
		if strings.Join(got.other, "|") != strings.Join(base.other, "|") {
			problems = append(problems, fmt.Sprintf("the Lua diagnostics changed: %v -> %v", base.other, got.other))
		}
		for bi := range blocks {
			if bi != cb {
				if got.hov[bi] != base.hov[bi] {
					problems = append(problems, fmt.Sprintf("hover of %s (another block) changed: %q -> %q", blocks[bi].use, lib.Trunc(base.hov[bi], 120), lib.Trunc(got.hov[bi], 120)))
				}
				continue
			}
			for _, k := range blocks[bi].keep[cl] {
				if strings.Contains(base.hov[bi], k) && !strings.Contains(got.hov[bi], k) {
					problems = append(problems, fmt.Sprintf("the neighbouring annotation %q is no longer effective in the hover of %s: %q", k, blocks[bi].use, lib.Trunc(got.hov[bi], 160)))
				}
			}
		}
		if len(problems) > 0 {
			res.AddViolation("impl-vs-spec", strings.Join(problems, "; "), caseText, false)
		}
	}
	return nil
}
