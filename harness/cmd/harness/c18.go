package main

import (
	"fmt"
	"os"
	"path/filepath"
	"sort"
	"strings"

	"verifharness/lib"

	"luahelper-lsp/langserver/check/common"
)

func init() { register("C18", runC18) }

var c18Dirs = []string{"a", "b", "lib", "util", "mod"}
// ("tablex", "ioutil": module names that BEGIN with the name of a built-in module are ordinary modules)
var c18Stems = []string{"mod", "util", "core", "init", "x", "ui", "re", "tablex", "ioutil"}

type c18Tree struct {
	files []string // workspace-relative paths of module files (.lua, dotted .lua, .so)
	cur   string   // the requiring file
	sib   bool     // sib.lua exists next to the requiring file and in a directory that sorts before it
}

func genC18Tree(r *lib.Rng) c18Tree {
	seen := map[string]bool{}
	var t c18Tree
	n := 3 + r.Intn(8)
	for i := 0; i < n; i++ {
		var comps []string
		for d := r.Intn(4); d > 0; d-- {
			comps = append(comps, c18Dirs[r.Intn(len(c18Dirs))])
		}
		name := c18Stems[r.Intn(len(c18Stems))]
		switch r.Intn(12) {
		case 0:
			name += ".test.lua"
		case 1:
			name += ".so"
		default:
			name += ".lua"
		}
		p := strings.Join(append(comps, name), "/")
		if !seen[p] {
			seen[p] = true
			t.files = append(t.files, p)
		}
	}
	var comps []string
	for d := r.Intn(3); d > 0; d-- {
		comps = append(comps, c18Dirs[r.Intn(len(c18Dirs))])
	}
	t.cur = strings.Join(append(comps, "main_q.lua"), "/")
	if r.Chance(1, 3) {
		// the same module next to the requiring file and in a directory that sorts first: the sibling has the
		// strictly better score for every consumer (analysis, definition, hover)
		d := []string{"lib", "mod", "util"}[r.Intn(3)]
		t.cur = d + "/main_q.lua"
		for _, p := range []string{"a/sib.lua", d + "/sib.lua"} {
			if !seen[p] {
				seen[p] = true
				t.files = append(t.files, p)
			}
		}
		t.sib = true
	}
	sort.Strings(t.files)
	return t
}

// module strings: derived from existing files (with 0..all leading directories, either separator),
// init-directory modules, and names that do not exist
func genC18Modules(r *lib.Rng, t c18Tree) []string {
	var out []string
	seen := map[string]bool{}
	add := func(m string) {
		if m != "" && !seen[m] {
			seen[m] = true
			out = append(out, m)
		}
	}
	k := 2 + r.Intn(4)
	for i := 0; i < k; i++ {
		sep := "."
		if r.Chance(1, 3) {
			sep = "/"
		}
		switch r.Intn(6) {
		case 0:
			add(c18Stems[r.Intn(len(c18Stems))] + "zz")
		case 1:
			add(c18Dirs[r.Intn(len(c18Dirs))] + sep + c18Stems[r.Intn(len(c18Stems))])
		default:
			f := t.files[r.Intn(len(t.files))]
			comps := strings.Split(f, "/")
			name := comps[len(comps)-1]
			stem := name[:strings.Index(name, ".")]
			dirs := comps[:len(comps)-1]
			if stem == "init" && len(dirs) > 0 && r.Chance(2, 3) {
				keep := 1 + r.Intn(len(dirs))
				add(strings.Join(dirs[len(dirs)-keep:], sep))
				continue
			}
			keep := r.Intn(len(dirs) + 1)
			add(strings.Join(append(append([]string{}, dirs[len(dirs)-keep:]...), stem), sep))
		}
	}
	return out
}

func parseModAns(ans string) (a, d, s []string, err error) {
	f := strings.Split(ans, " ")
	if len(f) != 3 || !strings.HasPrefix(f[0], "A=") || !strings.HasPrefix(f[1], "D=") || !strings.HasPrefix(f[2], "S=") {
		return nil, nil, nil, fmt.Errorf("bad modres answer %q", ans)
	}
	sp := func(x string) []string {
		if x == "" {
			return nil
		}
		l := strings.Split(x, "|")
		sort.Strings(l)
		return l
	}
	return sp(f[0][2:]), sp(f[1][2:]), sp(f[2][2:]), nil
}

func inList(l []string, x string) bool {
	for _, y := range l {
		if y == x {
			return true
		}
	}
	return false
}

func hexArgs(xs ...string) string {
	var h []string
	for _, x := range xs {
		h = append(h, lib.Hex([]byte(x)))
	}
	return strings.Join(h, " ")
}

func runC18(res *lib.Result, tier string, seed int64, args []string) error {
	nUnit, nE2E := 1500, 40
	if tier == "thorough" {
		nUnit, nE2E = 100000, 2500
	}
	res.Rule = "directory trees (depth 0-3, duplicate-named modules, init.lua modules, dotted file names, .so files; workspace path with and without dotted directory names) and module strings derived from them (0..all leading directories, '.' or '/' separator) or absent; unit: the real GetBestMatchReferFile over a real FileIndexInfo must return a member of the model's best-candidate set; e2e: for each require line the real server's type-6 diagnostic, go-to-definition and hover on the string, and go-to-definition of a member of the required module (= the file the analysis loaded) vs model and spec: diagnostic iff nothing resolves, the two definitions agree, both lie in the spec's candidate set (unique candidate: equal to it); then a missing module is created / a resolved one deleted (didChangeWatchedFiles) and the answers must flip; non-trivial = the module resolves; distinct by (tree, module)"
	drv, err := lib.StartDriver()
	if err != nil {
		return err
	}
	defer drv.Close()
	root := lib.NewRng(uint64(seed))
	// ---------------- unit ----------------
	// fixed trees (every tier): mirrored sub-trees, where directory names coincide at the same depth in a subtree that
	// does NOT share the requiring file's prefix
	for _, fc := range [][]string{
		{"srv/src/core/main.lua", "mod", "srv/src/core/main.lua", "zcli/src/core/mod.lua", "srv/lib/util/mod.lua"},
		{"srv/src/main.lua", "mod", "srv/src/main.lua", "cli/src/mod.lua", "srv/lib/mod.lua"},
		{"app1/game/logic/main.lua", "util/mod", "app1/game/logic/main.lua", "app2/game/logic/util/mod.lua", "app1/game/share/util/mod.lua"},
		{"a/x/y/main.lua", "mod.lua", "a/x/y/main.lua", "b/x/y/mod.lua", "a/p/q/mod.lua", "c/x/y/mod.lua"},
	} {
		rootDir, cur, refer, luaFiles := "/ws/proj", fc[0], fc[1], fc[2:]
		idx := common.CreateFileIndexInfo()
		for _, f := range luaFiles {
			idx.InsertOneFile(rootDir + "/" + f)
		}
		impl := common.GetBestMatchReferFile(rootDir+"/"+cur, refer, map[string]string{}, idx)
		ans, err := drv.Ask("modbest " + hexArgs(append([]string{rootDir, cur, refer}, luaFiles...)...))
		if err != nil {
			return err
		}
		var set []string
		if b := strings.TrimPrefix(ans, "B="); b != "" {
			set = strings.Split(b, "|")
		}
		res.Count(fmt.Sprintf("u|%s|%s|%s|%s", rootDir, cur, refer, strings.Join(luaFiles, ",")), len(set) > 0)
		res.Dist("unit.mirrored-subtrees")
		implRel := strings.TrimPrefix(impl, rootDir+"/")
		if (impl == "") != (len(set) == 0) || (impl != "" && !inList(set, implRel)) {
			res.AddViolation("impl-vs-model", fmt.Sprintf("GetBestMatchReferFile(%q, %q) = %q, model's best candidates %v", rootDir+"/"+cur, refer, impl, set),
				fmt.Sprintf("root %s files %v", rootDir, luaFiles), true)
		}
	}
	for i := 0; i < nUnit; i++ {
		r := root.Fork(uint64(i))
		t := genC18Tree(r)
		rootDir := "/ws/proj"
		if r.Chance(1, 3) {
			rootDir = "/home/u.v/my.proj"
		}
		idx := common.CreateFileIndexInfo()
		var luaFiles []string
		for _, f := range t.files {
			if strings.HasSuffix(f, ".lua") {
				luaFiles = append(luaFiles, f)
				idx.InsertOneFile(rootDir + "/" + f)
			}
		}
		for _, m := range genC18Modules(r, t) {
			refer := strings.ReplaceAll(m, ".", "/")
			switch r.Intn(3) {
			case 1:
				refer += ".lua"
			case 2:
				refer += "/init.lua"
			}
			impl := common.GetBestMatchReferFile(rootDir+"/"+t.cur, refer, map[string]string{}, idx)
			ans, err := drv.Ask("modbest " + hexArgs(append([]string{rootDir, t.cur, refer}, luaFiles...)...))
			if err != nil {
				return err
			}
			var set []string
			if b := strings.TrimPrefix(ans, "B="); b != "" {
				set = strings.Split(b, "|")
			}
			res.Count(fmt.Sprintf("u|%s|%s|%s|%s", rootDir, t.cur, refer, strings.Join(luaFiles, ",")), len(set) > 0)
			res.Dist(fmt.Sprintf("unit.candidates=%d", minInt(len(set), 3)))
			implRel := strings.TrimPrefix(impl, rootDir+"/")
			if (impl == "") != (len(set) == 0) || (impl != "" && !inList(set, implRel)) {
				res.AddViolation("impl-vs-model", fmt.Sprintf("GetBestMatchReferFile(%q, %q) = %q, model's best candidates %v", rootDir+"/"+t.cur, refer, impl, set),
					fmt.Sprintf("root %s files %v", rootDir, luaFiles), true)
			}
		}
	}
	// ---------------- e2e ----------------
	for wi := 0; wi < nE2E; wi++ {
		r := root.Fork(uint64(5000000 + wi))
		t := genC18Tree(r)
		mods := genC18Modules(r, t)
		if t.sib {
			mods = append(mods, "sib")
		}
		if wi%2 == 0 {
			// a module that exists as name.lua AND as name/init.lua (name.lua wins everywhere), and a dotted module that
			// exists only as a directory with init.lua
			for _, p := range []string{"zpk.lua", "zpk/init.lua", "zpd/net/init.lua", "zq-mod.lua"} {
				t.files = append(t.files, p)
			}
			sort.Strings(t.files)
			mods = append(mods, "zpk", "zpd.net", "zq-mod") // … and a module whose name has a hyphen
		}
		if wi%4 == 1 {
			// the canonical replay of finding K3: a native module next to a Lua module of the same name
			t.files = append(t.files, "zso.so", "zso.lua")
			sort.Strings(t.files)
			mods = append(mods, "zso")
		}
		// dofile("<path>.lua") references (resolved by exact path first, then by suffix match)
		for k := r.Intn(3); k > 0; k-- {
			f := t.files[r.Intn(len(t.files))]
			if !strings.HasSuffix(f, ".lua") || strings.Count(filepath.Base(f), ".") > 1 {
				continue
			}
			comps := strings.Split(f, "/")
			keep := 1 + r.Intn(len(comps))
			p := strings.Join(comps[len(comps)-keep:], "/")
			if r.Chance(1, 5) {
				p = "zz" + p
			}
			mods = append(mods, "dofile:"+p)
		}
		base := lib.ScratchDir(fmt.Sprintf("c18w%d", wi))
		dir := base
		if r.Chance(1, 3) {
			dir = filepath.Join(base, "my.proj") // a dotted directory name above the workspace
		}
		files := map[string]string{}
		for i, f := range t.files {
			if strings.HasSuffix(f, ".lua") {
				files[f] = fmt.Sprintf("local M = {}\nM.who = %d\nreturn M\n", i)
			} else {
				files[f] = "binary"
			}
		}
		var main []string
		for i, m := range mods {
			if strings.HasPrefix(m, "dofile:") {
				if i%2 == 1 {
					// the path in single quotes
					main = append(main, fmt.Sprintf("dofile('%s')", strings.TrimPrefix(m, "dofile:")), fmt.Sprintf("print(%d)", i))
					continue
				}
				main = append(main, fmt.Sprintf("dofile(\"%s\")", strings.TrimPrefix(m, "dofile:")), fmt.Sprintf("print(%d)", i))
				continue
			}
			if r.Chance(1, 4) {
				main = append(main, fmt.Sprintf("local m%d = require \"%s\"", i, m))
			} else {
				main = append(main, fmt.Sprintf("local m%d = require(\"%s\")", i, m))
			}
			if i%3 == 1 {
				// non-ASCII text in front of the require on its line (UTF-16 columns and byte indexes differ), and a name behind it
				main[len(main)-1] = fmt.Sprintf("local zs%d = \"\u65e5\u672c\u8a9e\u65e5\u672c\u8a9e\"; ", i) + main[len(main)-1] + fmt.Sprintf("; print(1234, zs%d)", i)
			}
			main = append(main, fmt.Sprintf("print(m%d.who)", i))
		}
		files[t.cur] = strings.Join(main, "\n") + "\n"
		if err := lib.WriteWorkspace(dir, files); err != nil {
			return err
		}
		sess, err := lib.StartSession(dir, lib.AllChecksOptions())
		if err != nil {
			os.RemoveAll(base)
			return err
		}
		sess.DidOpen(t.cur, files[t.cur])
		sess.Sync()
		var luaFiles []string
		for _, f := range t.files {
			if strings.HasSuffix(f, ".lua") {
				luaFiles = append(luaFiles, f)
			}
		}
		treeText := fmt.Sprintf("workspace %s\nfiles: %s\nrequiring file %s:\n%s", dir, strings.Join(t.files, " "), t.cur, files[t.cur])
		type obs struct {
			diag6          bool
			defStr, defWho string
			hov            string
		}
		observe := func(i int) (obs, error) {
			var o obs
			for _, d := range sess.DiagView()[t.cur] {
				if d.ErrType() == 6 && d.Range.Start.Line == 2*i {
					o.diag6 = true
				}
			}
			line := main[2*i]
			// the first character of the module string (behind the quote that follows `require` / `dofile`), as a UTF-16 column
			bcol := strings.IndexAny(line, "\"'") + 1
			if k := strings.Index(line, "require"); k >= 0 {
				bcol = k + strings.Index(line[k:], "\"") + 1
			}
			col := utf16Len(line[:bcol])
			if k := strings.LastIndex(line, "zs"); k > bcol {
				// the name behind the require on the same line is an ordinary local: hover shows it, not a file
				if h, err := sess.Hover(t.cur, 2*i, utf16Len(line[:k])); err == nil && strings.Contains(h, "lua file") {
					res.AddViolation("impl-vs-spec", fmt.Sprintf("hover on the local %s behind a require on its line answers %q", line[k:k+3], lib.Trunc(h, 80)), fmt.Sprintf("%s line %d: %s", t.cur, 2*i, line), false)
				}
			}
			locs, err := sess.Definition(t.cur, 2*i, col)
			if err != nil {
				return o, err
			}
			if len(locs) > 0 {
				o.defStr = sess.Rel(locs[0].URI)
			}
			o.hov, err = sess.Hover(t.cur, 2*i, col)
			if err != nil {
				return o, err
			}
			wl := main[2*i+1]
			if k := strings.Index(wl, "who"); k >= 0 {
				locs, err = sess.Definition(t.cur, 2*i+1, k)
				if err != nil {
					return o, err
				}
				if len(locs) > 0 && sess.Rel(locs[0].URI) != t.cur {
					o.defWho = sess.Rel(locs[0].URI)
				}
			}
			return o, nil
		}
		var missing, resolved, resolvedDofile []int
		allFiles := append([]string{}, t.files...)
		// checkLine compares the answers for require line i with model and spec over the current file set
		checkLine := func(i int, label string) {
			m := mods[i]
			if strings.HasPrefix(m, "dofile:") {
				p := strings.TrimPrefix(m, "dofile:")
				caseText := fmt.Sprintf("%sdofile(%q) at line %d\n%s", label, p, 2*i, treeText)
				lib.Breadcrumb("C18 " + caseText)
				ans, err := drv.Ask("modbest " + hexArgs(append([]string{dir, t.cur, p}, luaFiles...)...))
				if err != nil {
					res.AddViolation("crash-or-timeout", err.Error(), caseText, false)
					return
				}
				var B []string
				if b := strings.TrimPrefix(ans, "B="); b != "" {
					B = strings.Split(b, "|")
				}
				exact := inList(luaFiles, p)
				o, err := observe(i)
				if err != nil {
					res.AddViolation("crash-or-timeout", err.Error(), caseText, false)
					return
				}
				res.Count(fmt.Sprintf("d|%s|%s|%s|%s", label, strings.Join(allFiles, ","), t.cur, p), exact || len(B) > 0)
				res.Dist("e2e.dofile")
				var mm []string
				if o.diag6 != (!exact && len(B) == 0) {
					mm = append(mm, fmt.Sprintf("type-6 diagnostic %v, exact file exists %v, suffix candidates %v", o.diag6, exact, B))
				}
				if (o.defStr == "") != (len(B) == 0) || (o.defStr != "" && !inList(B, o.defStr)) {
					mm = append(mm, fmt.Sprintf("definition on the string leads to %q, candidates %v", o.defStr, B))
				}
				if len(mm) > 0 {
					res.AddViolation("impl-vs-model", strings.Join(mm, "; "), caseText, label == "")
				} else if label == "" && exact && len(B) == 1 && B[0] == p {
					resolvedDofile = append(resolvedDofile, i)
				}
				return
			}
			caseText := fmt.Sprintf("%srequire(%q) at line %d\n%s", label, m, 2*i, treeText)
			lib.Breadcrumb("C18 " + caseText)
			ans, err := drv.Ask("modres " + hexArgs(append([]string{dir, t.cur, m}, luaFiles...)...))
			if err != nil {
				res.AddViolation("crash-or-timeout", err.Error(), caseText, false)
				return
			}
			A, D, S, err := parseModAns(ans)
			if err != nil {
				res.AddViolation("crash-or-timeout", err.Error(), caseText, false)
				return
			}
			so := inList(allFiles, strings.ReplaceAll(m, ".", "/")+".so")
			if so {
				A = nil // a native module at the workspace root wins; nothing is loaded, nothing is reported
			}
			o, err := observe(i)
			if err != nil {
				res.AddViolation("crash-or-timeout", err.Error(), caseText, false)
				return
			}
			res.Count(fmt.Sprintf("e|%s|%s|%s|%s", label, strings.Join(allFiles, ","), t.cur, m), len(S) > 0)
			res.Dist(fmt.Sprintf("e2e.spec-candidates=%d", minInt(len(S), 3)))
			if wi < 1 && i < 2 && label == "" {
				res.Sample(map[string]interface{}{"case": lib.Trunc(caseText, 300), "diag6": o.diag6, "defString": o.defStr, "defMember": o.defWho, "hover": lib.Trunc(o.hov, 60)})
			}
			// implementation vs model
			var mm []string
			if o.diag6 != (len(A) == 0 && !so) {
				mm = append(mm, fmt.Sprintf("type-6 diagnostic %v, model candidates %v so=%v", o.diag6, A, so))
			}
			if (o.defWho == "") != (len(A) == 0) || (o.defWho != "" && !inList(A, o.defWho)) {
				mm = append(mm, fmt.Sprintf("member definition leads to %q, model's loaded-file candidates %v", o.defWho, A))
			}
			if (o.defStr == "") != (len(D) == 0) || (o.defStr != "" && !inList(D, o.defStr)) {
				mm = append(mm, fmt.Sprintf("definition on the string leads to %q, model candidates %v", o.defStr, D))
			}
			if strings.Contains(o.hov, "lua file :") != (len(D) > 0) {
				mm = append(mm, fmt.Sprintf("hover %q, model candidates %v", lib.Trunc(o.hov, 60), D))
			}
			if len(mm) > 0 {
				res.AddViolation("impl-vs-model", strings.Join(mm, "; "), caseText, label == "")
				return
			}
			// implementation (= model) vs spec
			dotted := false
			for _, f := range luaFiles {
				if strings.Count(filepath.Base(f), ".") > 1 && strings.HasPrefix(filepath.Base(f), filepath.Base(strings.ReplaceAll(m, ".", "/"))+".") {
					dotted = true
				}
			}
			var sp []string
			if o.diag6 != (len(S) == 0 && !so) {
				sp = append(sp, fmt.Sprintf("type-6 diagnostic %v but the documented mapping finds %v", o.diag6, S))
			}
			if !so && o.defStr != o.defWho {
				sp = append(sp, fmt.Sprintf("go-to-definition on the string leads to %q, the analysis loaded %q", o.defStr, o.defWho))
			}
			if o.defWho != "" && !inList(S, o.defWho) {
				sp = append(sp, fmt.Sprintf("the analysis loaded %q, the documented mapping allows %v", o.defWho, S))
			}
			if o.defStr != "" && !inList(S, o.defStr) {
				sp = append(sp, fmt.Sprintf("go-to-definition on the string leads to %q, the documented mapping allows %v", o.defStr, S))
			}
			if so && o.defStr != "" && o.defStr != o.defWho {
				sp = append(sp, fmt.Sprintf("go-to-definition on the string leads to %q, the analysis loaded %q (a native module of that name exists)", o.defStr, o.defWho))
			}
			if len(sp) > 0 {
				switch {
				case dotted:
					res.HitKnown("C18-K1", "a file whose name has a second dot (mod.test.lua) is indexed under the part before its FIRST dot: require(\"mod\") loads it (no type-6 diagnostic) while go-to-definition on the string, which looks for mod.lua, does not find it", caseText+"\n"+strings.Join(sp, "\n"))
					res.Dist("hit.C18-K1")
				case so:
					res.HitKnown("C18-K3", "a native module name.so at the workspace root shadows name.lua for the analysis (nothing is loaded) while go-to-definition still opens name.lua", caseText+"\n"+strings.Join(sp, "\n"))
					res.Dist("hit.C18-K3")
				default:
					res.AddViolation("impl-vs-spec", strings.Join(sp, "; "), caseText, false)
				}
				return
			}
			if label == "" {
				if len(S) == 0 && !so {
					missing = append(missing, i)
				} else if len(S) == 1 && len(A) == 1 {
					resolved = append(resolved, i)
				}
			}
		}
		for i := range mods {
			checkLine(i, "")
		}
		// ---------------- creation / deletion: every line is re-checked over the new file set ----------------
		if len(missing) > 0 {
			i := missing[r.Intn(len(missing))]
			newRel := strings.ReplaceAll(mods[i], ".", "/") + ".lua" // (missing only holds require lines)
			if err := lib.WriteWorkspace(dir, map[string]string{newRel: "local M = {}\nM.who = 99\nreturn M\n"}); err != nil {
				return err
			}
			sess.Watched(map[string]int{newRel: 1})
			sess.Sync()
			luaFiles = append(luaFiles, newRel)
			allFiles = append(allFiles, newRel)
			res.Dist("dynamic.create")
			for j := range mods {
				checkLine(j, fmt.Sprintf("after creating %s (didChangeWatchedFiles): ", newRel))
			}
		}
		if len(resolved) > 0 {
			i := resolved[r.Intn(len(resolved))]
			o0, _ := observe(i)
			if o0.defWho != "" {
				os.Remove(filepath.Join(dir, o0.defWho))
				sess.Watched(map[string]int{o0.defWho: 3})
				sess.Sync()
				drop := func(l []string) []string {
					var out []string
					for _, f := range l {
						if f != o0.defWho {
							out = append(out, f)
						}
					}
					return out
				}
				luaFiles, allFiles = drop(luaFiles), drop(allFiles)
				res.Dist("dynamic.delete")
				for j := range mods {
					checkLine(j, fmt.Sprintf("after deleting %s (didChangeWatchedFiles): ", o0.defWho))
				}
			}
		}
		if len(resolvedDofile) > 0 {
			i := resolvedDofile[r.Intn(len(resolvedDofile))]
			victim := strings.TrimPrefix(mods[i], "dofile:")
			if inList(luaFiles, victim) {
				os.Remove(filepath.Join(dir, victim))
				sess.Watched(map[string]int{victim: 3})
				sess.Sync()
				var lf, af []string
				for _, f := range luaFiles {
					if f != victim {
						lf = append(lf, f)
					}
				}
				for _, f := range allFiles {
					if f != victim {
						af = append(af, f)
					}
				}
				luaFiles, allFiles = lf, af
				res.Dist("dynamic.delete-dofile")
				for j := range mods {
					checkLine(j, fmt.Sprintf("after deleting %s (didChangeWatchedFiles): ", victim))
				}
			}
		}
		// a SECOND candidate appears for a require that already resolves: name.lua is created at the workspace root while the
		// analysis has loaded some dir/…/name.lua — every line is re-checked (the analysis and go-to-definition on the string
		// must still agree, whichever file they choose)
		for j, m := range mods {
			if strings.ContainsAny(m, "./:") || inList(allFiles, m+".lua") {
				continue
			}
			if o0, _ := observe(j); o0.defWho == "" || !strings.Contains(o0.defWho, "/") {
				continue
			}
			newRel := m + ".lua"
			if err := lib.WriteWorkspace(dir, map[string]string{newRel: "local M = {}\nM.who = 77\nreturn M\n"}); err != nil {
				return err
			}
			sess.Watched(map[string]int{newRel: 1})
			sess.Sync()
			luaFiles = append(luaFiles, newRel)
			allFiles = append(allFiles, newRel)
			res.Dist("dynamic.create-second-candidate")
			for k := range mods {
				checkLine(k, fmt.Sprintf("after creating a second candidate %s (didChangeWatchedFiles): ", newRel))
			}
			break
		}
		sess.Close()
		os.RemoveAll(base)
	}
	return nil
}

func minInt(a, b int) int {
	if a < b {
		return a
	}
	return b
}
