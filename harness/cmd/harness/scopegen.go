package main

import (
	"fmt"
	"strings"

	"verifharness/lib"
)

// Generator for the scoping family (C05/C06/C07/C11/C12/C14): valid programs with nested blocks,
// functions, for/repeat/while/if, shadowing and re-declaration over a SMALL name pool, closures,
// repeat-until reads, write-only locals, globals.  No methods/self, no _G, no goto (not scoping).
// One statement per line (readable replays); identifiers are ASCII.

type scopeGen struct {
	r      *lib.Rng
	lines  []string
	indent int
	depth  int
	locals []string // names likely in scope (bias towards shadowing / use of visible names)
	pool   []string
	gpool  []string
	fresh  func() string // when set, every declaration gets a new unique name
}

func newScopeGen(r *lib.Rng) *scopeGen {
	return &scopeGen{r: r, pool: []string{"a", "b", "c", "x", "y", "v", "_w"}, gpool: []string{"G1", "G2", "gfun", "print", "a", "x"}}
}

func (g *scopeGen) line(s string) { g.lines = append(g.lines, strings.Repeat("  ", g.indent)+s) }

func (g *scopeGen) name() string {
	if g.fresh != nil {
		return g.fresh()
	}
	return g.pool[g.r.Intn(len(g.pool))]
}

func (g *scopeGen) useName() string {
	if len(g.locals) > 0 && g.r.Chance(3, 4) {
		return g.locals[g.r.Intn(len(g.locals))]
	}
	if g.r.Chance(1, 2) {
		return g.gpool[g.r.Intn(len(g.gpool))]
	}
	return g.name()
}

func (g *scopeGen) exp(d int) string {
	if d <= 0 {
		switch g.r.Intn(4) {
		case 0:
			return []string{"1", "2", "nil", "true", "\"s\""}[g.r.Intn(5)]
		default:
			return g.useName()
		}
	}
	switch g.r.Intn(9) {
	case 0, 1:
		return g.exp(d-1) + " + " + g.exp(d-1)
	case 2:
		return g.useName() + "(" + g.exp(d-1) + ")"
	case 3:
		return "(" + g.exp(d-1) + ")"
	case 4:
		if g.r.Chance(1, 3) {
			// a computed key: its expression is read too
			return "{ [" + g.exp(d-1) + "] = " + g.exp(d-1) + ", k = " + g.exp(d-1) + " }"
		}
		return "{ " + g.exp(d-1) + ", k = " + g.exp(d-1) + " }"
	case 5:
		return g.useName() + ".f"
	case 6:
		return "not " + g.exp(d-1)
	case 7:
		// comparisons and short-circuit operators (a global read as their direct operand is exempt from the
		// undefined / defined-later reports only on the line that defines it: the 'x = x or v' idiom)
		return g.exp(d-1) + []string{" or ", " and ", " == ", " ~= "}[g.r.Intn(4)] + g.exp(d-1)
	default:
		return g.exp(0)
	}
}

func (g *scopeGen) block(n int) {
	g.depth++
	g.indent++
	mark := len(g.locals)
	for i := 0; i < n; i++ {
		g.stat()
	}
	g.locals = g.locals[:mark]
	g.indent--
	g.depth--
}

func (g *scopeGen) body() int {
	if g.depth >= 4 {
		return g.r.Intn(2)
	}
	return 1 + g.r.Intn(3)
}

func (g *scopeGen) funcBody(head string) {
	np := g.r.Intn(3)
	var ps []string
	for i := 0; i < np; i++ {
		ps = append(ps, g.name())
	}
	g.line(head + "(" + strings.Join(ps, ", ") + ")")
	mark := len(g.locals)
	g.locals = append(g.locals, ps...)
	g.block(g.body())
	if g.r.Chance(1, 2) {
		g.indent++
		g.line("return " + g.exp(1))
		g.indent--
	}
	g.locals = g.locals[:mark]
	g.line("end")
}

func (g *scopeGen) stat() {
	k := g.r.Intn(36)
	if g.depth >= 4 && k >= 12 && k <= 20 {
		k = g.r.Intn(10)
	}
	switch k {
	case 0, 1, 2, 3:
		n := g.name()
		g.line("local " + n + " = " + g.exp(2))
		g.locals = append(g.locals, n)
	case 4:
		// initialiser mentions the same name (scope starts after the statement)
		n := g.name()
		g.line("local " + n + " = " + n + []string{" + 1", "", "(1)", " or 0", ".f"}[g.r.Intn(5)])
		g.locals = append(g.locals, n)
	case 5:
		a, b := g.name(), g.name()
		g.line("local " + a + ", " + b + " = " + g.exp(1) + ", " + []string{a, g.exp(1)}[g.r.Intn(2)])
		g.locals = append(g.locals, a, b)
	case 6:
		n := g.name()
		g.line("local " + n)
		g.locals = append(g.locals, n)
		if g.r.Chance(1, 2) {
			g.line(n + " = " + []string{"gfun(" + n + ")", g.exp(1), n, "function() return " + n + " end"}[g.r.Intn(4)])
		}
	case 7, 8, 9:
		n := g.useName()
		if n == "print" {
			n = "G1" // never assign the built-in
		}
		g.line(n + " = " + g.exp(2))
	case 10, 11:
		g.line(g.useName() + "(" + g.exp(1) + ")")
	case 12:
		g.line("do")
		g.block(g.body())
		g.line("end")
	case 13:
		g.line("while " + g.exp(1) + " do")
		g.block(g.body())
		g.line("end")
	case 14:
		g.line("repeat")
		g.depth++
		g.indent++
		mark := len(g.locals)
		n := g.name()
		g.line("local " + n + " = " + g.exp(1))
		g.locals = append(g.locals, n)
		for i := g.r.Intn(2); i > 0; i-- {
			g.stat()
		}
		g.indent--
		g.depth--
		// the condition sees the block's locals
		g.line("until " + []string{n, g.exp(1)}[g.r.Intn(2)])
		g.locals = g.locals[:mark]
	case 15:
		g.line("if " + g.exp(1) + " then")
		g.block(g.body())
		if g.r.Chance(1, 2) {
			g.line("elseif " + g.exp(1) + " then")
			g.block(1)
		}
		if g.r.Chance(1, 2) {
			g.line("else")
			g.block(1)
		}
		g.line("end")
	case 16:
		n := g.name()
		g.line("for " + n + " = " + []string{n, g.exp(0), "1"}[g.r.Intn(3)] + ", " + g.exp(0) + " do")
		mark := len(g.locals)
		g.locals = append(g.locals, n)
		g.block(g.body())
		g.locals = g.locals[:mark]
		g.line("end")
	case 17:
		a, b := g.name(), g.name()
		g.line("for " + a + ", " + b + " in pairs(" + g.useName() + ") do")
		mark := len(g.locals)
		g.locals = append(g.locals, a, b)
		g.block(g.body())
		g.locals = g.locals[:mark]
		g.line("end")
	case 18:
		n := g.name()
		g.locals = append(g.locals, n)
		g.funcBody("local function " + n)
	case 19:
		n := g.name()
		g.funcBody("local " + n + " = function")
		g.locals = append(g.locals, n)
	case 20:
		g.funcBody("function " + g.gpool[g.r.Intn(3)])
	case 21:
		g.line(g.gpool[g.r.Intn(3)] + " = " + g.exp(1))
	case 22:
		g.line("print(" + g.useName() + ", " + g.useName() + ")")
	case 28:
		// more targets than expressions: the extra targets take the further results of the call
		a, b := g.useName(), g.useName()
		if a == "print" {
			a = "G1"
		}
		if b == "print" || b == a {
			b = "G2"
		}
		if a == b {
			a = "G1"
		}
		if g.r.Chance(1, 2) {
			// a global whose only definition is the second target
			b = fmt.Sprintf("GM%d", len(g.lines))
			g.line(a + ", " + b + " = gfun(" + g.exp(0) + ")")
			g.line("print(" + b + ")")
		} else {
			g.line(a + ", " + b + " = gfun(" + g.exp(0) + ")")
		}
	case 26:
		// closures in the limit and the step of a numeric for (several lines each)
		n := g.name()
		p1, p2 := g.name(), g.name()
		g.line("for " + n + " = 1, (function(" + p1 + ")")
		g.line("  return " + p1 + " + " + g.exp(0))
		g.line("end)(2), (function(" + p2 + ")")
		g.line("  return " + p2 + " + " + g.exp(0))
		g.line("end)(1) do")
		mark := len(g.locals)
		g.locals = append(g.locals, n)
		g.block(g.body())
		g.locals = g.locals[:mark]
		g.line("end")
	case 27:
		// a closure inside the target of an assignment and another one as its value
		t := g.useName()
		if t == "print" {
			t = "G1"
		}
		p1, p2 := g.name(), g.name()
		g.line(t + "[(function(" + p1 + ")")
		g.line("  return " + p1)
		g.line("end)(1)] = function(" + p2 + ")")
		g.line("  return " + p2 + " + " + g.exp(0))
		g.line("end")
	case 24:
		// assignment through an index whose key is not a constant: prefix and key are uses
		t, kx := g.useName(), g.useName()
		if t == "print" {
			t = "G1"
		}
		g.line(t + "[" + []string{kx, "#" + t + " + 1", kx + " + 1"}[g.r.Intn(3)] + "] = " + g.exp(1))
	case 25:
		t := g.useName()
		if t == "print" {
			t = "G1"
		}
		if g.r.Chance(1, 4) {
			// a bare name between two string-key indexes on one line
			g.line(t + "[\"k\"] = " + g.useName() + " + " + t + "[\"j\"]")
		} else {
			g.line(t + []string{".f", ".f.g", "[\"k\"]", "[1]"}[g.r.Intn(4)] + " = " + g.exp(1))
		}
	case 29:
		// a variable written right next to a key of the same name, no spaces: the cursor on the variable is one
		// column away from the key
		n, t := g.useName(), g.useName()
		if t == "print" {
			t = "G1"
		}
		if n == "print" {
			n = "G1"
		}
		g.line(t + "." + n + "=" + n)
	case 30:
		n := g.useName()
		if n == "print" {
			n = "G1"
		}
		g.line("local " + g.name() + " = {" + n + "=" + n + "," + n + "=" + n + "}")
		g.line("print(" + n + "." + n + ")")
	case 31:
		// a concatenation chain written without blanks: every operand is an identifier of its own
		n := g.name()
		g.line("local " + n + " = " + g.useName() + ".." + g.useName() + ".." + g.useName() + []string{"", "..\"!\"", ".." + g.useName()}[g.r.Intn(3)])
		g.locals = append(g.locals, n)
	case 32:
		// attributes: the declared name is the identifier, not the attribute behind it
		n1, n2 := g.name(), g.name()
		for n2 == n1 {
			n2 = g.name()
		}
		g.line("local " + n1 + " <const>, " + n2 + []string{" <const>", " <close>", ""}[g.r.Intn(3)] + " = " + g.exp(1) + ", nil")
		g.locals = append(g.locals, n1, n2)
	case 33:
		// identifiers behind a long comment / long string on their line
		n := g.name()
		g.line("local " + n + " = " + []string{"--[[c]] ", "--[==[ a ]] b ]==] ", "[[s]] .. ", "[=[x]=] .. "}[g.r.Intn(4)] + g.useName() + " .. " + g.useName())
		g.locals = append(g.locals, n)
	case 34:
		// identifiers behind characters outside the BMP (two UTF-16 units each) and three-byte characters
		n := g.name()
		g.line("local " + n + " = " + []string{"\"😀\" .. ", "\"😀😀 中\" .. ", "\"中文\" .. ", "--[[😀]] "}[g.r.Intn(4)] + g.useName() + " .. " + g.useName())
		g.locals = append(g.locals, n)
	case 35:
		// the text of an annotation comment inside a string literal is text: what follows it is code
		if g.r.Chance(1, 3) {
			g.line("print(\"---@\", " + g.useName() + ", \"--\", " + g.useName() + ")")
		} else if g.r.Chance(1, 2) {
			// bracket characters in string literals around an identifier: it is not the key of a ["..."] access
			g.line("print(\"[\" .. " + g.useName() + " .. \"]\", '[', " + g.useName() + ", ']')")
		} else {
			n := g.name()
			g.line("local " + n + " = \"---@type \" .. " + g.useName() + " .. '--[[' .. " + g.useName())
			g.locals = append(g.locals, n)
		}
	default:
		g.line("local " + g.name() + ", " + g.name())
	}
}

func genScopeProgram(r *lib.Rng) string {
	g := newScopeGen(r)
	g.indent = -1
	g.depth = 0
	g.block(3 + r.Intn(5))
	return strings.Join(g.lines, "\n") + "\n"
}
