package main

import (
	"fmt"
	"os"
	"sort"
	"strings"

	"verifharness/lib"
)

func init() { register("C12", runC12) }

func runC12(res *lib.Result, tier string, seed int64, args []string) error {
	nProg := 60
	if tier == "thorough" {
		nProg = 3000
	}
	res.Rule = "generated programs as in C05 and the repository's own testdata/define files; for EVERY identifier occurrence p the four real answers are cross-compared WITHOUT an oracle: (i) every reference of p resolves (definition) to the declaration p resolves to, (ii) p is among the references found from its declaration, (iii) documentHighlight(p) = references(p), (iv) hover names the identifier and says 'local' exactly when the definition is a local declaration, (v) references(p) = references(declaration of p) as sets (refs_class); an inconsistency is excused only if the name has an occurrence in a C05/C06 finding class (computed by the driver); second family: workspaces of several files (a module table returned by one file and required through differently named locals by others; ---@type-annotated locals / globals aliased by un-annotated variables of the opposite kind), every identifier token of every file, the same four comparisons across files; non-trivial = p has a definition; distinct by (program, position)"
	drv, err := lib.StartDriver()
	if err != nil {
		return err
	}
	defer drv.Close()
	dir := lib.ScratchDir("c12")
	defer os.RemoveAll(dir)
	root := lib.NewRng(uint64(seed))
	if os.Getenv("VERIF_C12_MULTI_ONLY") != "" {
		nProg = 0
	}
	progs := scopePrograms(root, "C12", nProg)
	if os.Getenv("VERIF_C12_MULTI_ONLY") != "" {
		progs = nil
	}
	for pi, src := range progs {
		occs, sess, err := scopeProgram(drv, dir, src)
		if err != nil {
			return err
		}
		if pi < 2 {
			res.Sample(map[string]interface{}{"program": src, "occurrences": len(occs)})
		}
		// globals with several assignment sites
		writes := map[string]int{}
		for _, o := range occs {
			if o.t == "G" && o.kind == "W" {
				writes[o.name]++
			}
		}
		defAt := map[string]string{}
		def := func(line, col int) (string, error) {
			k := fmt.Sprintf("%d:%d", line, col)
			if v, ok := defAt[k]; ok {
				return v, nil
			}
			locs, err := sess.Definition("main.lua", line, col)
			if err != nil {
				return "", err
			}
			v := "-"
			if len(locs) > 0 {
				v = locOfRange(locs[0].Range)
			}
			defAt[k] = v
			return v, nil
		}
		for _, o := range occs {
			caseText := fmt.Sprintf("position %d:%d (%s) in\n%s", o.sl-1, o.sc, o.name, src)
			lib.Breadcrumb("C12 " + caseText)
			d, err := def(o.sl-1, o.sc)
			if err != nil {
				res.AddViolation("crash-or-timeout", err.Error(), caseText, false)
				continue
			}
			refs, err := sess.References("main.lua", o.sl-1, o.sc, true)
			if err != nil {
				res.AddViolation("crash-or-timeout", err.Error(), caseText, false)
				continue
			}
			hls, err := sess.Highlight("main.lua", o.sl-1, o.sc)
			if err != nil {
				res.AddViolation("crash-or-timeout", err.Error(), caseText, false)
				continue
			}
			hov, err := sess.Hover("main.lua", o.sl-1, o.sc)
			if err != nil {
				res.AddViolation("crash-or-timeout", err.Error(), caseText, false)
				continue
			}
			res.Count(fmt.Sprintf("%d/%d:%d", pi, o.sl, o.sc), d != "-")
			var problems []string
			var rl, hl []string
			for _, r := range refs {
				rl = append(rl, locOfRange(r.Range))
			}
			for _, h := range hls {
				hl = append(hl, locOfRange(h))
			}
			sort.Strings(rl)
			sort.Strings(hl)
			// (iii)
			if strings.Join(rl, " ") != strings.Join(hl, " ") {
				problems = append(problems, fmt.Sprintf("(iii) highlight [%s] differs from references [%s]", strings.Join(hl, " "), strings.Join(rl, " ")))
			}
			// (i)
			for _, r := range refs {
				rd, err := def(r.Range.Start.Line, r.Range.Start.Character)
				if err != nil {
					problems = append(problems, err.Error())
					break
				}
				if rd != d {
					problems = append(problems, fmt.Sprintf("(i) reference %s resolves to %s but the queried position resolves to %s", locOfRange(r.Range), rd, d))
					break
				}
			}
			// (ii)
			if d != "-" {
				var dl, dc int
				fmt.Sscanf(d, "%d:%d", &dl, &dc)
				drefs, err := sess.References("main.lua", dl-1, dc, true)
				if err == nil {
					found := false
					for _, r := range drefs {
						if locOfRange(r.Range) == occLoc(o) {
							found = true
						}
					}
					if !found {
						problems = append(problems, fmt.Sprintf("(ii) the position is not among the references of its own declaration %s", d))
					}
					// (v) Props/C12 refs_class: whichever occurrence the user asks from, the answer is the same set
					var dl2 []string
					for _, r := range drefs {
						dl2 = append(dl2, locOfRange(r.Range))
					}
					sort.Strings(dl2)
					if found && strings.Join(dl2, " ") != strings.Join(rl, " ") {
						problems = append(problems, fmt.Sprintf("(v) references asked from here [%s] differ from references asked from the declaration %s [%s]", strings.Join(rl, " "), d, strings.Join(dl2, " ")))
					}
				}
			}
			// (iv)
			if hov != "" && hov != "null" {
				if !strings.Contains(hov, o.name) {
					problems = append(problems, fmt.Sprintf("(iv) hover %q does not name the identifier", lib.Trunc(hov, 80)))
				}
				isLocalHover := strings.Contains(hov, "local "+o.name) || strings.Contains(hov, "local function "+o.name)
				isLocalDef := false
				for _, x := range occs {
					if x.kind == "D" && occLoc(x) == d {
						isLocalDef = true
					}
				}
				if d != "-" && isLocalHover != isLocalDef {
					problems = append(problems, fmt.Sprintf("(iv) hover %q presents local=%v but the definition %s is local=%v", lib.Trunc(hov, 80), isLocalHover, d, isLocalDef))
				}
			}
			if len(problems) == 0 {
				continue
			}
			if o.t == "G" && writes[o.name] > 1 {
				res.HitKnown("C12-K2", "a global assigned in several places: only the winning definition (lowest function level / scope level / line) and the uses are linked; another assignment site resolves to the winning definition but is missing from its references", caseText+"\n"+strings.Join(problems, "\n"))
				res.Dist("hit.C12-K2")
				continue
			}
			res.AddViolation("inconsistent-answers", strings.Join(problems, "; "), caseText, false)
		}
		sess.Close()
	}
	// second family: module workspaces and annotated aliases, cross-file
	nMulti := 30
	if tier == "thorough" {
		nMulti = 1500
	}
	for i := 0; i < nMulti; i++ {
		if v := os.Getenv("VERIF_C12_ONLY_ITER"); v != "" && v != fmt.Sprint(i) {
			continue
		}
		r := root.Fork(uint64(9000000 + i))
		d1 := lib.ScratchDir(fmt.Sprintf("c12m%d", i))
		err := c12Multi(res, d1, genModuleWorkspace(r), "module", i)
		os.RemoveAll(d1)
		if err != nil {
			return err
		}
		d3 := lib.ScratchDir(fmt.Sprintf("c12b%d", i))
		err = c12Multi(res, d3, genMemberWorkspace(r.Fork(77)), "member", i)
		os.RemoveAll(d3)
		if err != nil {
			return err
		}
		if i%3 == 0 {
			d4 := lib.ScratchDir(fmt.Sprintf("c12t%d", i))
			err = c12Multi(res, d4, genTwoDefWorkspace(r.Fork(78)), "twodef", i)
			os.RemoveAll(d4)
			if err != nil {
				return err
			}
		}
		d2 := lib.ScratchDir(fmt.Sprintf("c12a%d", i))
		err = c12Multi(res, d2, genAnnotWorkspace(r), "annot", i)
		os.RemoveAll(d2)
		if err != nil {
			return err
		}
	}
	return nil
}
