package main

import (
	"fmt"
	"os"
	"runtime"
	"sort"
	"strings"

	"luahelper-lsp/langserver/check/common"
	"luahelper-lsp/langserver/check/compiler/lexer"
	"verifharness/lib"
)

func init() { register("C19", runC19) }

type outlineReq struct {
	qname                         string
	cls                           string
	locs                          []lib.Range
	colon, fn, byAssign, shadowed bool
}

func parseOutlineReqs(ans string) ([]outlineReq, error) {
	body := strings.TrimPrefix(ans, "OK")
	body = strings.TrimSpace(body)
	var out []outlineReq
	if body == "" {
		return out, nil
	}
	for _, it := range strings.Split(body, ";") {
		f := strings.Split(it, ",")
		if len(f) != 7 {
			return nil, fmt.Errorf("bad outline item %q", it)
		}
		r := outlineReq{qname: string(lib.UnHex(strings.TrimPrefix(f[0], "q="))), cls: strings.TrimPrefix(f[1], "c=")}
		for _, l := range strings.Split(strings.TrimPrefix(f[2], "L="), "|") {
			var a, b, c, d int
			if n, _ := fmt.Sscanf(l, "%d:%d:%d:%d", &a, &b, &c, &d); n == 4 {
				r.locs = append(r.locs, lib.Range{Start: lib.Pos{Line: a, Character: b}, End: lib.Pos{Line: c, Character: d}})
			}
		}
		r.colon = f[3] == "m=1"
		r.fn = f[4] == "f=1"
		r.byAssign = f[5] == "a=1"
		r.shadowed = f[6] == "s=1"
		out = append(out, r)
	}
	return out, nil
}

func posLE(a, b lib.Pos) bool {
	return a.Line < b.Line || (a.Line == b.Line && a.Character <= b.Character)
}
func rangeContains(a, b lib.Range) bool { return posLE(a.Start, b.Start) && posLE(b.End, a.End) }

type flatSym struct {
	name string // normalised
	raw  string
	rg   lib.Range
	sel  lib.Range
	kind int
}

func flattenSyms(syms []lib.DocSymbol, out *[]flatSym) {
	for _, y := range syms {
		n := strings.TrimPrefix(y.Name, "local ")
		if i := strings.Index(n, "("); i >= 0 {
			n = n[:i]
		}
		*out = append(*out, flatSym{name: n, raw: y.Name, rg: y.Range, sel: y.SelectionRange, kind: y.Kind})
		flattenSyms(y.Children, out)
	}
}

// genC19File: declarations of every kind the outline documents; names are unique in the workspace
// (suffix `tag`) except for deliberately repeated top-level locals.
func genC19File(r *lib.Rng, tag string) string {
	var ls []string
	n := 0
	fresh := func(p string) string { n++; return fmt.Sprintf("%s%d%s", p, n, tag) }
	body := func() []string {
		switch r.Intn(3) {
		case 0:
			return []string{"  return 1", "end"}
		case 1:
			return []string{"  local z = 2", "  return z", "end"}
		}
		return []string{"end"}
	}
	var tables, gtables, locals []string
	cnt := 4 + r.Intn(9)
	for i := 0; i < cnt; i++ {
		switch r.Intn(15) {
		case 0:
			v := fresh("a")
			locals = append(locals, v)
			ls = append(ls, "local "+v+" = 1")
		case 1:
			ls = append(ls, "local "+fresh("b")+", "+fresh("c")+" = 2, 3")
		case 2:
			ls = append(ls, "local function "+fresh("lf")+"(x, y)")
			ls = append(ls, body()...)
		case 3:
			ls = append(ls, "local "+fresh("lg")+" = function(p)")
			ls = append(ls, body()...)
		case 4:
			t := fresh("t")
			tables = append(tables, t)
			// a table is not always initialised by a constructor
			ls = append(ls, "local "+t+" = "+[]string{"{}", "{}", "setmetatable({}, {})", "mkobj(1)", "{} or nil"}[r.Intn(5)])
		case 5:
			ls = append(ls, "local "+fresh("u")+" = { x = 1, y = function() end }")
		case 6:
			ls = append(ls, fresh("g")+" = 5")
		case 7:
			ls = append(ls, "function "+fresh("gf")+"(z)")
			ls = append(ls, body()...)
		case 8:
			t := fresh("G")
			gtables = append(gtables, t)
			ls = append(ls, t+" = {}")
		case 9:
			ls = append(ls, fresh("gh")+" = function(q)")
			ls = append(ls, body()...)
		case 10:
			ls = append(ls, "do", "  local "+fresh("inner")+" = 1", "  "+fresh("gd")+" = 2", "end")
		case 11:
			ls = append(ls, "local function "+fresh("w")+"()", "  "+fresh("gq")+" = 1", "end")
		case 12, 13:
			all := append(append([]string{}, tables...), gtables...)
			if len(all) == 0 {
				continue
			}
			t := all[r.Intn(len(all))]
			switch r.Intn(4) {
			case 0:
				ls = append(ls, t+"."+fresh("k")+" = 1")
			case 1:
				ls = append(ls, "function "+t+"."+fresh("f")+"(q)")
				ls = append(ls, body()...)
			case 2:
				ls = append(ls, "function "+t+":"+fresh("m")+"(r)")
				ls = append(ls, body()...)
			default:
				ls = append(ls, t+"."+fresh("h")+" = function()")
				ls = append(ls, body()...)
			}
		default:
			if len(locals) > 0 && r.Chance(1, 2) {
				ls = append(ls, "local "+locals[r.Intn(len(locals))]+" = 7") // same-named top-level local again
			} else {
				ls = append(ls, "---@class "+fresh("Cls"), "---@field n number", "local "+fresh("cv")+" = {}")
			}
		}
	}
	return strings.Join(ls, "\n") + "\n"
}

func runC19(res *lib.Result, tier string, seed int64, args []string) error {
	nWs := 60
	if tier == "thorough" {
		nWs = 3000
	}
	res.Rule = "workspaces of 1-3 generated files (top-level locals incl. multi-name and repeated names, local / global functions by statement and by assignment, tables with members declared by assignment, function statement, method statement and constructor, globals assigned in nested blocks and functions, annotation classes; every 8th workspace large enough to exceed the 200-symbol cap, every 8th one made of more small files than the symbol collector has workers); the real textDocument/documentSymbol answer must (a) consist only of well-formed ranges inside the file and (b) contain, for every declaration required by the Lean spec `Outline.required` run on the model parser's AST, an entry of that name whose range contains the declaring identifier; workspace/symbol queried with the exact name of every required global / function must return an entry of that name in that file located at the declaring identifier; non-trivial = the file has at least one required declaration; distinct by file text"
	drv, err := lib.StartDriver()
	if err != nil {
		return err
	}
	defer drv.Close()
	root := lib.NewRng(uint64(seed))
	// unit: FuncSymbolLoc (the range of a function symbol) on random pairs of Locs vs the model
	for k := 0; k < 1500; k++ {
		r := root.Fork(uint64(7700000 + k))
		mk := func() lexer.Location {
			sl := 1 + r.Intn(4)
			el := sl + r.Intn(3)
			sc := r.Intn(12)
			ec := r.Intn(12)
			if el == sl {
				ec = sc + r.Intn(6)
			}
			if r.Chance(1, 12) {
				return lexer.Location{}
			}
			return lexer.Location{StartLine: sl, StartColumn: sc, EndLine: el, EndColumn: ec}
		}
		v, f := mk(), mk()
		got := common.FuncSymbolLoc(v, f)
		line := fmt.Sprintf("funcsym %d:%d:%d:%d %d:%d:%d:%d", v.StartLine, v.StartColumn, v.EndLine, v.EndColumn, f.StartLine, f.StartColumn, f.EndLine, f.EndColumn)
		ans, err := drv.Ask(line)
		if err != nil {
			return err
		}
		res.Evaluations++
		res.Dist("unit.funcsym")
		if g := fmt.Sprintf("%d:%d:%d:%d", got.StartLine, got.StartColumn, got.EndLine, got.EndColumn); g != ans {
			res.AddViolation("impl-vs-model", fmt.Sprintf("FuncSymbolLoc = %s, model %s", g, ans), line, false)
		}
	}
	for wi := 0; wi < nWs; wi++ {
		r := root.Fork(uint64(wi))
		files := map[string]string{}
		nf := 1 + r.Intn(3)
		if wi%8 == 7 {
			nf = 12 // > 200 symbols in the workspace
		}
		var blockFns [][3]string // file, qualified name, identifier: functions on block-local tables
		many := wi%8 == 3        // more files than the symbol collector has workers (NumCPU+2): the refill path is used
		if many {
			nf = runtime.NumCPU() + 6 + r.Intn(8)
		}
		for fi := 0; fi < nf; fi++ {
			if many {
				// plus a function on a table that is local to a block, to a branch and to a function body
				files[fmt.Sprintf("f%d.lua", fi)] = fmt.Sprintf("function wsfun%dx%d(a)\n  return a\nend\nwsglob%dx%d = %d\ndo\n  local Inner%dx%d = {}\n  function Inner%dx%d.run%dx%d(x) end\nend\nlocal function outer%dx%d()\n  local Nest%dx%d = {}\n  function Nest%dx%d:deep%dx%d() end\nend\n",
					wi, fi, wi, fi, fi, wi, fi, wi, fi, wi, fi, wi, fi, wi, fi, wi, fi, wi, fi)
				if fi%4 == 0 {
					// a local function three scopes deep whose earlier sibling scope has two sub-scopes of its own
					files[fmt.Sprintf("f%d.lua", fi)] += fmt.Sprintf("local function setup%dx%d(list)\n  local function scan%dx%d()\n    for i = 1, #list do list[i] = i end\n    for i = #list, 1, -1 do list[i] = nil end\n    while list[1] do list[1] = nil end\n    do local z = 1 list[z] = z end\n    if list[2] then list[2] = nil end\n  end\n  local function build%dx%d()\n    local function hidden%dx%d() return 1 end\n    return hidden%dx%d\n  end\n  return scan%dx%d, build%dx%d\nend\n",
						wi, fi, wi, fi, wi, fi, wi, fi, wi, fi, wi, fi, wi, fi)
					blockFns = append(blockFns, [3]string{fmt.Sprintf("f%d.lua", fi), fmt.Sprintf("hidden%dx%d", wi, fi), fmt.Sprintf("hidden%dx%d", wi, fi)})
				}
				blockFns = append(blockFns, [3]string{fmt.Sprintf("f%d.lua", fi), fmt.Sprintf("Inner%dx%d.run%dx%d", wi, fi, wi, fi), fmt.Sprintf("run%dx%d", wi, fi)},
					[3]string{fmt.Sprintf("f%d.lua", fi), fmt.Sprintf("Nest%dx%d.deep%dx%d", wi, fi, wi, fi), fmt.Sprintf("deep%dx%d", wi, fi)})
				continue
			}
			src := genC19File(r.Fork(uint64(fi)), fmt.Sprintf("x%d", fi))
			if wi%8 == 7 {
				for k := 0; k < 3; k++ {
					src += genC19File(r.Fork(uint64(100+fi*10+k)), fmt.Sprintf("x%dy%d", fi, k))
				}
			}
			files[fmt.Sprintf("f%d.lua", fi)] = src
		}
		if many {
			// a file of its own: a local function three scopes deep whose earlier sibling scope has several sub-scopes
			files["deep.lua"] = fmt.Sprintf("local function setupD%d(list)\n  local function scanD%d()\n    for i = 1, #list do list[i] = i end\n    for i = #list, 1, -1 do list[i] = nil end\n  end\n  local function buildD%d()\n    local function hiddenD%d() return 1 end\n    return hiddenD%d\n  end\n  return scanD%d, buildD%d\nend\nreturn setupD%d\n", wi, wi, wi, wi, wi, wi, wi, wi)
			blockFns = append(blockFns, [3]string{"deep.lua", fmt.Sprintf("hiddenD%d", wi), fmt.Sprintf("hiddenD%d", wi)})
		}
		if !many {
			// functions inside blocks that declare no local of their own (the scope walk must not prune such scopes),
			// and a table declared and extended on one line
			files["nest.lua"] = fmt.Sprintf("local function setupN%d()\n  if DEBUGN then\n    local function traceN%d() end\n    local helpersN%d = {}\n    function helpersN%d.dumpN%d() end\n  end\nend\ndo do local function deepN%d() end end end\nSL%d = {} function SL%d.sf%d() end\nSM%d = { k = 1 } function SM%d:sm%d(a) end function SM%d.sn%d() end\nprint(setupN%d)\n",
				wi, wi, wi, wi, wi, wi, wi, wi, wi, wi, wi, wi, wi, wi, wi)
			blockFns = append(blockFns, [3]string{"nest.lua", fmt.Sprintf("traceN%d", wi), fmt.Sprintf("traceN%d", wi)},
				[3]string{"nest.lua", fmt.Sprintf("helpersN%d.dumpN%d", wi, wi), fmt.Sprintf("dumpN%d", wi)},
				[3]string{"nest.lua", fmt.Sprintf("deepN%d", wi), fmt.Sprintf("deepN%d", wi)},
				[3]string{"nest.lua", fmt.Sprintf("SL%d.sf%d", wi, wi), fmt.Sprintf("sf%d", wi)},
				[3]string{"nest.lua", fmt.Sprintf("SM%d.sm%d", wi, wi), fmt.Sprintf("sm%d", wi)},
				[3]string{"nest.lua", fmt.Sprintf("SM%d.sn%d", wi, wi), fmt.Sprintf("sn%d", wi)})
		}
		if !many && nf >= 2 && nf <= 3 {
			// a global table declared in one file gets a function member in another file
			files["f0.lua"] += fmt.Sprintf("GTw%d = {}\nfunction GTw%d.own%d() end\n", wi, wi, wi)
			files["f1.lua"] += fmt.Sprintf("function GTw%d.cross%d(a, b)\n  return a\nend\n", wi, wi)
			// … and a global table that has NO member of its own where it is declared
			files["f0.lua"] += fmt.Sprintf("GEw%d = {}\n", wi)
			files["f1.lua"] += fmt.Sprintf("function GEw%d.crossE%d(a)\n  return a\nend\n", wi, wi)
		}
		var classReqs [][2]string // file, class name: annotation classes, findable by name and in the outline at their line
		if !many {
			// a global and a function with one-character names (queried by that name), and two classes declared in ONE
			// comment block
			files["nest.lua"] += fmt.Sprintf("q = 5\nfunction z() end\n---@class CAw%d\n---@class CBw%d : CAw%d\nlocal cbw%d = {}\nprint(cbw%d)\n", wi, wi, wi, wi, wi)
			classReqs = append(classReqs, [2]string{"nest.lua", fmt.Sprintf("CAw%d", wi)}, [2]string{"nest.lua", fmt.Sprintf("CBw%d", wi)})
		}
		if !many {
			// the default idiom: the constructor behind `or` declares the members (global and local table)
			files["nest.lua"] += fmt.Sprintf("ModD%d = ModD%d or { runD%d = function() end, verD%d = 1 }\nfunction ModD%d.stopD%d() end\nlocal CacheD%d = CacheD%d or { getD%d = function(k) return k end }\nprint(CacheD%d)\n", wi, wi, wi, wi, wi, wi, wi, wi, wi, wi)
		}
		dir := lib.ScratchDir(fmt.Sprintf("c19w%d", wi))
		if err := lib.WriteWorkspace(dir, files); err != nil {
			return err
		}
		sess, err := lib.StartSession(dir, lib.AllChecksOptions())
		if err != nil {
			os.RemoveAll(dir)
			return err
		}
		var names []string
		for f := range files {
			names = append(names, f)
		}
		sort.Strings(names)
		for _, f := range names {
			src := files[f]
			ans, err := drv.Ask(fmt.Sprintf("outline %s %s", lib.Hex([]byte(src)), lib.ConvTableFor([]byte(src))))
			if err != nil {
				return err
			}
			if strings.HasPrefix(ans, "ERR") {
				return fmt.Errorf("generator produced an invalid program (%s):\n%s", ans, src)
			}
			reqs, err := parseOutlineReqs(ans)
			if err != nil {
				return err
			}
			lib.Breadcrumb("C19 documentSymbol " + f + ":\n" + src)
			syms, err := sess.DocumentSymbol(f)
			if err != nil {
				res.AddViolation("crash-or-timeout", err.Error(), src, false)
				continue
			}
			var flat []flatSym
			flattenSyms(syms, &flat)
			res.Count(src, len(reqs) > 0)
			if wi < 1 {
				res.Sample(map[string]interface{}{"file": lib.Trunc(src, 400), "required": len(reqs), "outlineEntries": len(flat)})
			}
			lines := strings.Split(src, "\n")
			// (a) every range well formed and inside the file
			for _, y := range flat {
				bad := ""
				if !posLE(y.rg.Start, y.rg.End) {
					bad = "start after end"
				} else if y.rg.End.Line >= len(lines) || y.rg.Start.Line < 0 {
					bad = "outside the file"
				} else if y.rg.Start.Character > len(lines[y.rg.Start.Line]) || y.rg.End.Character > len(lines[y.rg.End.Line]) {
					bad = "column beyond the end of its line"
				} else if !rangeContains(y.rg, y.sel) {
					bad = "selectionRange not inside range"
				}
				if bad != "" {
					res.AddViolation("impl-vs-spec", fmt.Sprintf("outline entry %q has an ill-formed range %s (%s)", y.raw, locOfRange(y.rg), bad), src, false)
				}
			}
			// (b) every required declaration is listed where it is
			for _, q := range reqs {
				want := q.qname
				if q.colon {
					if i := strings.LastIndex(want, "."); i >= 0 {
						want = want[:i] + ":" + want[i+1:]
					}
				}
				res.Dist("req." + q.cls)
				found, named := false, false
				for _, y := range flat {
					if y.name != want {
						continue
					}
					named = true
					for _, l := range q.locs {
						if rangeContains(y.rg, l) {
							found = true
						}
					}
				}
				caseText := fmt.Sprintf("declaration %s (%s) of %s:\n%s", want, q.cls, f, src)
				if !found {
					switch {
					case named:
						res.AddViolation("impl-vs-spec", "the outline entry of a declaration does not contain the declaring identifier", caseText, false)
					default:
						res.AddViolation("impl-vs-spec", "a declaration is missing from the outline", caseText, false)
					}
				}
				// workspace/symbol for globals and functions
				if q.cls == "global" || q.fn {
					ws, err := sess.WorkspaceSymbol(q.qname)
					if err != nil {
						res.AddViolation("crash-or-timeout", err.Error(), caseText, false)
						continue
					}
					res.Dist("wsquery")
					ok := false
					for _, w := range ws {
						if w.Name != q.qname || sess.Rel(w.Location.URI) != f {
							continue
						}
						for _, l := range q.locs {
							if rangeContains(w.Location.Range, l) || rangeContains(l, w.Location.Range) {
								ok = true
							}
						}
					}
					if !ok {
						res.AddViolation("impl-vs-spec", fmt.Sprintf("workspace/symbol %q (%d answers) has no entry of that name located at the declaration", q.qname, len(ws)), caseText, false)
					}
				}
			}
		}
		// functions declared on tables that are local to a nested block / function body: findable by name
		for k, bf := range blockFns {
			if k%3 != 0 && !strings.HasPrefix(bf[1], "hidden") && bf[0] != "nest.lua" {
				continue
			}
			ws, err := sess.WorkspaceSymbol(bf[1])
			caseText := fmt.Sprintf("workspace/symbol %q; %s:\n%s", bf[1], bf[0], files[bf[0]])
			if err != nil {
				res.AddViolation("crash-or-timeout", err.Error(), caseText, false)
				continue
			}
			res.Dist("wsquery.block-local-table")
			ok := false
			flines := strings.Split(files[bf[0]], "\n")
			for _, w := range ws {
				if sess.Rel(w.Location.URI) != bf[0] || w.Location.Range.Start.Line >= len(flines) {
					continue
				}
				wname := strings.ReplaceAll(w.Name, ":", ".")
				if wname == bf[1] && strings.Contains(flines[w.Location.Range.Start.Line], bf[2]+"(") {
					ok = true
				}
			}
			if !ok {
				res.AddViolation("impl-vs-spec", fmt.Sprintf("workspace/symbol %q (%d answers) has no entry of that name on the line of the declaration", bf[1], len(ws)), caseText, false)
			}
		}
		for _, cr := range classReqs {
			caseText := fmt.Sprintf("annotation class %s; %s:\n%s", cr[1], cr[0], files[cr[0]])
			flines := strings.Split(files[cr[0]], "\n")
			onLine := func(ln int) bool { return ln < len(flines) && strings.HasPrefix(flines[ln], "---@class "+cr[1]) }
			res.Dist("wsquery.class")
			if ws, err := sess.WorkspaceSymbol(cr[1]); err != nil {
				res.AddViolation("crash-or-timeout", err.Error(), caseText, false)
			} else {
				ok := false
				for _, w := range ws {
					ok = ok || (w.Name == cr[1] && sess.Rel(w.Location.URI) == cr[0] && onLine(w.Location.Range.Start.Line))
				}
				if !ok {
					res.AddViolation("impl-vs-spec", fmt.Sprintf("workspace/symbol %q (%d answers) has no entry of that name on the line of its ---@class declaration", cr[1], len(ws)), caseText, false)
				}
			}
			if syms, err := sess.DocumentSymbol(cr[0]); err == nil {
				var flat []flatSym
				flattenSyms(syms, &flat)
				ok := false
				for _, y := range flat {
					ok = ok || (y.name == cr[1] && onLine(y.rg.Start.Line))
				}
				if !ok {
					res.AddViolation("impl-vs-spec", fmt.Sprintf("the outline has no entry %q on the line of its ---@class declaration", cr[1]), caseText, false)
				}
			}
		}
		sess.Close()
		os.RemoveAll(dir)
	}
	return nil
}
