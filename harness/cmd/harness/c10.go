package main

import (
	"encoding/json"
	"fmt"
	"io/ioutil"
	"os"
	"os/exec"
	"path/filepath"
	"sort"
	"strings"
	"sync"
	"time"

	"verifharness/lib"
)

func init() {
	register("C10", runC10)
	register("C10child", runC10Child)
}

var c10Files = map[string]string{
	"main.lua": "local util = require(\"util\")\n---@class Acc\n---@field total number\nlocal acc = {}\nfunction acc.add(self, n)\n  self.total = (self.total or 0) + n\n  return self.total\nend\nlocal function helper(a, b)\n  local s = a + b\n  return util.twice(s)\nend\nGlobalCounter = helper(1, 2)\nprint(GlobalCounter, acc.add(acc, 3))\nreturn acc\n",
	"util.lua": "local M = {}\nfunction M.twice(x)\n  return x * 2\nend\nfunction M.name()\n  return \"util\"\nend\nGlobalUtil = M\nreturn M\n",
	"other.lua": "local u = GlobalUtil\nlocal v = GlobalCounter\nlocal function f(p)\n  return u.twice(p) + v\nend\nreturn f\n",
}

type c10Query struct {
	method string
	line   int
	ch     int
}

func c10Queries() []c10Query {
	return []c10Query{
		{"textDocument/hover", 10, 15}, {"textDocument/definition", 10, 15}, {"textDocument/references", 8, 17},
		{"textDocument/rename", 9, 9}, {"textDocument/documentSymbol", 0, 0}, {"workspace/symbol", 0, 0},
		{"textDocument/completion", 12, 20}, {"textDocument/documentHighlight", 9, 9}, {"textDocument/documentColor", 0, 0},
		{"luahelper/getVarColor", 0, 0}, {"textDocument/signatureHelp", 12, 23},
	}
}

func c10Params(s *lib.Session, q c10Query) interface{} {
	td := map[string]interface{}{"uri": s.URI("main.lua")}
	pos := map[string]interface{}{"line": q.line, "character": q.ch}
	switch q.method {
	case "textDocument/references":
		return map[string]interface{}{"textDocument": td, "position": pos, "context": map[string]interface{}{"includeDeclaration": true}}
	case "textDocument/rename":
		return map[string]interface{}{"textDocument": td, "position": pos, "newName": "renamed"}
	case "textDocument/documentSymbol", "textDocument/documentColor":
		return map[string]interface{}{"textDocument": td}
	case "workspace/symbol":
		return map[string]interface{}{"query": "helper"}
	case "luahelper/getVarColor":
		return map[string]interface{}{"uri": s.URI("main.lua")}
	}
	return map[string]interface{}{"textDocument": td, "position": pos}
}

func canon(raw json.RawMessage, err error) string {
	if err != nil {
		return "ERR:" + err.Error()
	}
	var v interface{}
	if json.Unmarshal(raw, &v) != nil {
		return string(raw)
	}
	b, _ := json.Marshal(sortJSON(v))
	return string(b)
}

// sortJSON orders every array by the JSON text of its (recursively normalised) elements: list
// order in answers is not part of what C10 observes (it is C09's subject).
func sortJSON(v interface{}) interface{} {
	switch x := v.(type) {
	case []interface{}:
		keys := make([]string, len(x))
		for i := range x {
			x[i] = sortJSON(x[i])
			b, _ := json.Marshal(x[i])
			keys[i] = string(b)
		}
		sort.Sort(byKey{keys, x})
		return x
	case map[string]interface{}:
		delete(x, "data")     // completion item index: depends on map iteration order (C09's subject)
		delete(x, "sortText")
		for k := range x {
			x[k] = sortJSON(x[k])
		}
		return x
	}
	return v
}

type byKey struct {
	k []string
	v []interface{}
}

func (b byKey) Len() int           { return len(b.k) }
func (b byKey) Less(i, j int) bool { return b.k[i] < b.k[j] }
func (b byKey) Swap(i, j int)      { b.k[i], b.k[j] = b.k[j], b.k[i]; b.v[i], b.v[j] = b.v[j], b.v[i] }

// runC10Child runs inside a -race build: flooding scenarios + serialisability comparison.
// It prints one JSON line per finding on stdout ("NONSERIAL …") and relies on the race detector's
// log files for races.
func runC10Child(res *lib.Result, tier string, seed int64, args []string) error {
	rounds := 60
	if tier == "thorough" {
		rounds = 400
	}
	dir := lib.ScratchDir("c10ws")
	defer os.RemoveAll(dir)
	if err := lib.WriteWorkspace(dir, c10Files); err != nil {
		return err
	}
	root := lib.NewRng(uint64(seed))
	qs := c10Queries()
	t0 := c10Files["main.lua"]
	// every return path of every notification handler gives the request mutex back: document events about files the
	// server does not handle (not Lua; taken out of the analysis by a rule) must leave it answering
	{
		ldir := lib.ScratchDir("c10lock")
		lib.WriteWorkspace(ldir, map[string]string{"main.lua": "local x = 1\nprint(x)\n", "notes.txt": "some notes\n", "gen/x.lua": "local g = 1\nprint(g)\n"})
		o := lib.AllChecksOptions()
		o["IgnoreFileOrDir"] = []string{"gen/"}
		sess, err := lib.StartSession(ldir, o)
		if err != nil {
			os.RemoveAll(ldir)
			return err
		}
		sess.Timeout = 10 * time.Second
		sess.DidOpen("main.lua", "local x = 1\nprint(x)\n")
		steps := []struct {
			what string
			do   func()
		}{
			{"didOpen notes.txt (not a Lua file)", func() { sess.DidOpen("notes.txt", "some notes\n") }},
			{"didChange notes.txt", func() { sess.DidChange("notes.txt", []lib.ContentChange{{Text: "other notes\n"}}) }},
			{"didSave notes.txt", func() { sess.DidSave("notes.txt", "other notes\n") }},
			{"didClose notes.txt", func() { sess.DidClose("notes.txt") }},
			{"didChangeWatchedFiles notes.txt", func() { sess.Watched(map[string]int{"notes.txt": 2}) }},
			{"didOpen gen/x.lua (IgnoreFileOrDir gen/)", func() { sess.DidOpen("gen/x.lua", "local g = 1\nprint(g)\n") }},
			{"didChange gen/x.lua", func() { sess.DidChange("gen/x.lua", []lib.ContentChange{{Text: "local g = 2\nprint(g)\n"}}) }},
			{"didSave gen/x.lua", func() { sess.DidSave("gen/x.lua", "local g = 2\nprint(g)\n") }},
			{"didClose gen/x.lua", func() { sess.DidClose("gen/x.lua") }},
		}
		for _, st := range steps {
			lib.Breadcrumb("C10 lock release: " + st.what + ", then hover on main.lua 1:6")
			st.do()
			if _, err := sess.Hover("main.lua", 1, 6); err != nil {
				res.AddViolation("crash-or-timeout", fmt.Sprintf("after %s the server no longer answers (hover on main.lua: %v): a handler returned without releasing the request mutex", st.what, err), "workspace main.lua, notes.txt, gen/x.lua (IgnoreFileOrDir [\"gen/\"]); "+st.what+"; textDocument/hover main.lua 1:6", false)
				break
			}
			res.Dist("lock-release-step")
		}
		res.Count("lock-release", true)
		sess.Close()
		os.RemoveAll(ldir)
	}
	// bulk file events: many files rewritten and announced in ONE didChangeWatchedFiles (and created /
	// deleted in one): the worker pools of the re-analysis run while the coordinator stores results
	for bulk := 0; bulk < 3; bulk++ {
		bdir := lib.ScratchDir(fmt.Sprintf("c10bulk%d", bulk))
		files := map[string]string{}
		for i := 0; i < 40; i++ {
			files[fmt.Sprintf("m%d.lua", i)] = fmt.Sprintf("local m = require(\"m%d\")\nlocal t = {}\nfunction t.f%d() return %d end\n%sreturn t\n", (i+1)%40, i, i, strings.Repeat("-- pad\n", i%7))
		}
		lib.WriteWorkspace(bdir, files)
		sess, err := lib.StartSession(bdir, lib.AllChecksOptions())
		if err != nil {
			os.RemoveAll(bdir)
			return err
		}
		sess.Timeout = 60 * time.Second
		ev := map[string]int{}
		for i := 0; i < 40; i++ {
			n := fmt.Sprintf("m%d.lua", i)
			files[n] = files[n] + fmt.Sprintf("-- v%d\n", bulk)
			ev[n] = 2
		}
		lib.WriteWorkspace(bdir, files)
		lib.Breadcrumb("C10 bulk didChangeWatchedFiles: 40 files changed in one notification")
		sess.Watched(ev)
		sess.Sync()
		ev = map[string]int{}
		for i := 40; i < 60; i++ {
			n := fmt.Sprintf("m%d.lua", i)
			files[n] = fmt.Sprintf("local t = {}\nfunction t.g%d() end\nreturn t\n", i)
			ev[n] = 1
		}
		lib.WriteWorkspace(bdir, files)
		sess.Watched(ev)
		sess.Sync()
		res.Count(fmt.Sprintf("bulk-%d", bulk), true)
		res.Dist("bulk-file-events")
		sess.Close()
		os.RemoveAll(bdir)
	}
	// several open files with unsaved edits: their live syntax trees sit in the LRU cache, which the worker
	// goroutines of workspace/symbol, references and rename read concurrently WITHIN one request
	for k := 0; k < 6; k++ {
		sess, err := lib.StartSession(dir, lib.AllChecksOptions())
		if err != nil {
			return err
		}
		sess.Timeout = 30 * time.Second
		for _, f := range []string{"main.lua", "util.lua", "other.lua"} {
			sess.DidOpen(f, c10Files[f])
		}
		sess.Sync()
		for _, f := range []string{"main.lua", "util.lua", "other.lua"} {
			sess.DidChange(f, []lib.ContentChange{{Text: c10Files[f] + fmt.Sprintf("-- edit %d\n", k)}})
		}
		sess.Sync()
		lib.Breadcrumb("C10 three edited open files, then workspace/symbol, references and rename of a cross-file global")
		var waits []func() (json.RawMessage, error)
		for rep := 0; rep < 4; rep++ {
			for _, q := range []c10Query{{"workspace/symbol", 0, 0}, {"textDocument/references", 12, 3}, {"textDocument/rename", 12, 3}, {"textDocument/documentSymbol", 0, 0}} {
				waits = append(waits, sess.CallAsync(q.method, c10Params(sess, q)))
			}
		}
		for _, w := range waits {
			if _, err := w(); err != nil && strings.Contains(err.Error(), "TIMEOUT") {
				fmt.Printf("NONSERIAL %s\n", mustJSON(map[string]string{"kind": "hang", "detail": "a request with three edited open files did not answer: " + err.Error()}))
			}
		}
		res.Count(fmt.Sprintf("multi-edit-%d", k), true)
		res.Dist("multi-edited-files")
		sess.Close()
	}
	// answers that must not share state: the same kind of request several times at once, alternating between two
	// positions whose answers differ (two long member lists): every answer must be the sequential answer of ITS
	// position (an answer built in a buffer shared between requests is still being encoded when the next handler
	// refills it)
	{
		var sb strings.Builder
		sb.WriteString("BIGT = {}\nOTHT = {}\n")
		for i := 0; i < 150; i++ {
			fmt.Fprintf(&sb, "BIGT.alpha%03d = %d\nOTHT.beta%03d = %d\n", i, i, i, i)
		}
		pre := sb.String()
		text := pre + "local ca = BIGT.\nlocal cb = OTHT.\n"
		nl := strings.Count(pre, "\n")
		pairRounds := 6
		if tier == "thorough" {
			pairRounds = 60
		}
		for k := 0; k < pairRounds; k++ {
			sess, err := lib.StartSession(dir, lib.AllChecksOptions())
			if err != nil {
				return err
			}
			sess.Timeout = 30 * time.Second
			sess.DidOpen("main.lua", text)
			sess.Sync()
			par := func(line, ch int) interface{} {
				return map[string]interface{}{"textDocument": map[string]interface{}{"uri": sess.URI("main.lua")},
					"position": map[string]interface{}{"line": line, "character": ch}, "context": map[string]interface{}{"triggerKind": 2, "triggerCharacter": "."}}
			}
			pa, pb := par(nl, len("local ca = BIGT.")), par(nl+1, len("local cb = OTHT."))
			seqA := canon(sess.Call("textDocument/completion", pa))
			seqB := canon(sess.Call("textDocument/completion", pb))
			lib.Breadcrumb("C10 eight member completions at two positions in flight at once")
			var waits []func() (json.RawMessage, error)
			for j := 0; j < 8; j++ {
				if j%2 == 0 {
					waits = append(waits, sess.CallAsync("textDocument/completion", pa))
				} else {
					waits = append(waits, sess.CallAsync("textDocument/completion", pb))
				}
			}
			for j, w := range waits {
				got := canon(w())
				want := seqA
				if j%2 == 1 {
					want = seqB
				}
				res.Count(fmt.Sprintf("pair-%d-%d", k, j), true)
				res.Dist("completion-pairs")
				if got != want {
					fmt.Printf("NONSERIAL %s\n", mustJSON(map[string]string{"method": "textDocument/completion (two positions in flight)", "got": lib.Trunc(got, 300), "before": lib.Trunc(want, 300), "after": lib.Trunc(want, 300), "round": fmt.Sprintf("pair %d", k)}))
				}
			}
			if !strings.Contains(seqA, "alpha149") || !strings.Contains(seqB, "beta149") {
				return fmt.Errorf("C10 completion-pair scenario: the sequential completions do not list the members (%s)", lib.Trunc(seqA, 200))
			}
			sess.Close()
		}
	}
	for round := 0; round < rounds; round++ {
		r := root.Fork(uint64(round))
		sess, err := lib.StartSession(dir, lib.AllChecksOptions())
		if err != nil {
			return err
		}
		sess.Timeout = 30 * time.Second
		sess.DidOpen("main.lua", t0)
		sess.Sync()
		// the edit D: insert a line at the top (shifts every position) or append a new global at the end
		var change lib.ContentChange
		var t1 string
		if r.Chance(1, 2) {
			ins := "local shifted = 1\n"
			change = lib.ContentChange{Range: &lib.Range{}, Text: ins}
			t1 = ins + t0
		} else {
			ins := "GlobalExtra = helper(3, 4)\n"
			n := strings.Count(t0, "\n")
			change = lib.ContentChange{Range: &lib.Range{Start: lib.Pos{Line: n, Character: 0}, End: lib.Pos{Line: n, Character: 0}}, Text: ins}
			t1 = t0 + ins
		}
		// sequential answers before (A) and after (B) the edit
		ansA := map[string]string{}
		ansB := map[string]string{}
		for _, q := range qs {
			ansA[q.method] = canon(sess.Call(q.method, c10Params(sess, q)))
		}
		sess.DidChange("main.lua", []lib.ContentChange{change})
		sess.Sync()
		for _, q := range qs {
			ansB[q.method] = canon(sess.Call(q.method, c10Params(sess, q)))
		}
		// back to T0 (full text), then the concurrent round
		sess.DidChange("main.lua", []lib.ContentChange{{Text: t0}})
		sess.Sync()
		nq := 3 + r.Intn(4)
		var waits []func() (json.RawMessage, error)
		var asked []c10Query
		for k := 0; k < nq; k++ {
			q := qs[r.Intn(len(qs))]
			asked = append(asked, q)
			waits = append(waits, sess.CallAsync(q.method, c10Params(sess, q)))
			if k == nq/2 {
				// the notifications go out while earlier requests are still in flight
				sess.DidChange("main.lua", []lib.ContentChange{change})
				if r.Chance(1, 3) {
					sess.DidSave("main.lua", t1)
				}
				if r.Chance(1, 4) {
					sess.Watched(map[string]int{"util.lua": 2})
				}
			}
		}
		var wg sync.WaitGroup
		got := make([]string, len(waits))
		for k := range waits {
			wg.Add(1)
			go func(k int) { defer wg.Done(); got[k] = canon(waits[k]()) }(k)
		}
		wg.Wait()
		sess.Sync()
		for k, q := range asked {
			res.Count(fmt.Sprintf("%d/%s/%d", round, q.method, k), true)
			res.Dist(q.method)
			if strings.HasPrefix(got[k], "ERR:TIMEOUT") {
				res.AddViolation("timeout", fmt.Sprintf("%s did not answer while didChange was in flight (deadlock?)", q.method), fmt.Sprintf("round %d seed %d", round, seed), false)
				continue
			}
			if k > nq/2 {
				// issued after the notification: jrpc2 starts it only after the notification finished
				if got[k] != ansB[q.method] {
					// didSave/watched may legitimately change answers (re-analysis); compare only when D alone was sent
					res.Dist("after-barrier-differs")
				}
				continue
			}
			if q.method == "textDocument/documentHighlight" && got[k] == "null" {
				// the 3 s highlight gate after an edit (isCanHighlight): null is the sequential answer "after D"
				continue
			}
			if got[k] != ansA[q.method] && got[k] != ansB[q.method] {
				res.Dist("nonserial-candidate")
				fmt.Printf("NONSERIAL %s\n", mustJSON(map[string]string{"method": q.method, "got": lib.Trunc(got[k], 400), "before": lib.Trunc(ansA[q.method], 400), "after": lib.Trunc(ansB[q.method], 400), "round": fmt.Sprint(round)}))
			}
		}
		if round < 2 {
			res.Sample(map[string]interface{}{"round": round, "queries": asked, "edit": change.Text})
		}
		sess.Close()
	}
	return nil
}

func mustJSON(v interface{}) string { b, _ := json.Marshal(v); return string(b) }

// runC10 (parent): runs the child (same binary, which check builds with -race for C10) and turns
// race-detector reports and non-serialisable answers into violations.
func runC10(res *lib.Result, tier string, seed int64, args []string) error {
	res.Rule = "flooding sessions against the real jrpc2 server built with -race: 3-6 overlapping requests drawn from {hover, definition, references, rename, documentSymbol, workspace/symbol, completion, highlight, documentColor, getVarColor, signatureHelp} with a didChange (sometimes + didSave / watched-file event) sent while they are in flight; sessions with three edited open files (live trees in the LRU cache) followed by overlapping workspace/symbol, references, rename; " +
		"each answer of a request issued before the notification must equal its sequential answer before or after the edit; any race-detector report is a violation; non-trivial = every request of a flooding round (distinct by round/method/slot)"
	work := lib.ScratchDir("c10")
	defer os.RemoveAll(work)
	childOut := filepath.Join(work, "child.json")
	cmd := exec.Command(os.Args[0], "C10child", "--tier", tier, "--seed", fmt.Sprint(seed), "--out", childOut)
	cmd.Env = append(os.Environ(), "GORACE=log_path="+filepath.Join(work, "race")+" halt_on_error=0", "VERIF_WORK="+work)
	out, err := cmd.CombinedOutput()
	var child lib.Result
	if b, rerr := ioutil.ReadFile(childOut); rerr == nil {
		json.Unmarshal(b, &child)
	} else {
		res.AddViolation("crash", fmt.Sprintf("flooding child died: %v\n%s", err, lib.Trunc(string(out), 3000)), "seed "+fmt.Sprint(seed), false)
		return nil
	}
	res.Evaluations, res.Distinct, res.Samples, res.Distribution = child.Evaluations, child.Distinct, child.Samples, child.Distribution
	for _, v := range child.Violations {
		res.AddViolation(v.Kind, v.Detail, v.Case, v.NoFailingInput)
	}
	// race reports
	races, _ := filepath.Glob(filepath.Join(work, "race.*"))
	raceEnabled := strings.Contains(string(out), "RACE-DETECTOR-ON") || len(races) > 0
	for _, rf := range races {
		b, _ := ioutil.ReadFile(rf)
		if strings.Contains(string(b), "DATA RACE") {
			// keep only races that involve the language server packages
			if strings.Contains(string(b), "luahelper-lsp/langserver") {
				res.AddViolation("data-race", "the race detector reports an unsynchronised access while requests overlap a notification", lib.Trunc(string(b), 3500), false)
				break
			}
		}
	}
	nonserial := 0
	for _, l := range strings.Split(string(out), "\n") {
		if strings.HasPrefix(l, "NONSERIAL ") {
			nonserial++
			if nonserial == 1 {
				res.AddViolation("non-serialisable", "an answer issued concurrently with didChange equals neither the answer before nor the answer after the edit", l, false)
			}
		}
	}
	res.Extra["race_detector"] = raceBuild()
	res.Extra["race_reports"] = len(races)
	res.Extra["nonserial"] = nonserial
	_ = raceEnabled
	if !raceBuild() {
		res.Note("harness was built without -race: only serialisability of answers is checked in this run")
	}
	return nil
}
