package main

import (
	"fmt"
	"regexp"
	"sort"
	"strings"

	"verifharness/lib"
)

// Second scenario family of C12: workspaces of several files (a module table returned by one file and
// required by others; annotated variables aliased by un-annotated ones).  All identifier tokens of all
// files are queried and the four answers are cross-compared across files, again without an oracle.

var c12Keywords = map[string]bool{"and": true, "break": true, "do": true, "else": true, "elseif": true, "end": true, "false": true,
	"for": true, "function": true, "goto": true, "if": true, "in": true, "local": true, "nil": true, "not": true, "or": true,
	"repeat": true, "return": true, "then": true, "true": true, "until": true, "while": true}

type identPos struct {
	file       string
	line, col  int // col: LSP character (UTF-16 code units)
	bcol       int // byte offset of the identifier in its line
	name       string
	afterLocal bool // directly after `local ` / `local function `: a local declaration
}

// identTokens: identifier tokens outside comments and quoted strings (templates use no long brackets)
func identTokens(file, src string) []identPos {
	var out []identPos
	for ln, line := range strings.Split(src, "\n") {
		i := 0
		for i < len(line) {
			c := line[i]
			switch {
			case c == '-' && i+1 < len(line) && line[i+1] == '-':
				i = len(line)
			case c == '"' || c == '\'':
				j := i + 1
				for j < len(line) && line[j] != c {
					j++
				}
				i = j + 1
			case c == '_' || (c >= 'a' && c <= 'z') || (c >= 'A' && c <= 'Z'):
				j := i
				for j < len(line) && (line[j] == '_' || (line[j] >= 'a' && line[j] <= 'z') || (line[j] >= 'A' && line[j] <= 'Z') || (line[j] >= '0' && line[j] <= '9')) {
					j++
				}
				w := line[i:j]
				if !c12Keywords[w] {
					pre := line[:i]
					isParam := false
					if k := strings.LastIndex(pre, "function"); k >= 0 {
						rest := pre[k:]
						isParam = strings.Contains(rest, "(") && !strings.Contains(rest, ")")
					}
					// a later name of a local name list: `local a, b, c`
					inLocalList := false
					if t := strings.TrimLeft(pre, " "); strings.HasPrefix(t, "local ") && !strings.HasPrefix(t, "local function") {
						inLocalList = true
						for _, ch := range t[len("local "):] {
							if !(ch == '_' || ch == ',' || ch == ' ' || (ch >= 'a' && ch <= 'z') || (ch >= 'A' && ch <= 'Z') || (ch >= '0' && ch <= '9')) {
								inLocalList = false
							}
						}
					}
					out = append(out, identPos{file: file, line: ln, col: utf16Len(line[:i]), bcol: i, name: w, // LSP character = UTF-16 units
						afterLocal: isParam || inLocalList || strings.HasSuffix(pre, "local ") || strings.HasSuffix(pre, "local function ")})
				}
				i = j
			default:
				i++
			}
		}
	}
	return out
}

func genModuleWorkspace(r *lib.Rng) map[string]string {
	nm := 2 + r.Intn(3)
	var mod []string
	mod = append(mod, "local M = {}")
	var fields, funcs []string
	for i := 0; i < nm; i++ {
		if r.Chance(1, 2) {
			f := fmt.Sprintf("cnt%d", i)
			fields = append(fields, f)
			mod = append(mod, fmt.Sprintf("M.%s = %d", f, i))
		} else {
			f := fmt.Sprintf("fn%d", i)
			funcs = append(funcs, f)
			body := "a"
			if len(fields) > 0 {
				body = "a + M." + fields[r.Intn(len(fields))]
			}
			if r.Chance(1, 2) {
				mod = append(mod, fmt.Sprintf("function M.%s(a)", f), "  local b = "+body, "  return b", "end")
			} else {
				mod = append(mod, fmt.Sprintf("M.%s = function(a)", f), "  return "+body, "end")
			}
		}
	}
	if r.Chance(1, 2) {
		// a member named like the table itself: a reference of the member is not a reference of the table
		fields = append(fields, "M")
		mod = append(mod, "M.M = 7")
	}
	nested := r.Chance(1, 2)
	if nested {
		// members two and three levels below the module table, reached through the requiring variable
		mod = append(mod, "M.sub = { kk = 1 }", "M.sub.fn2 = function(a) return a end", "M.top = 3")
	}
	if len(funcs) > 0 {
		mod = append(mod, "function M.last()", "  return M."+funcs[r.Intn(len(funcs))]+"(1)", "end")
	}
	// a method declared and called with ':' (through the requiring variable too): always present, no random draw
	mod = append(mod, "function M:me(k)", "  return self, k", "end", "M:me(2)")
	mod = append(mod, "return M")
	files := map[string]string{"mod.lua": strings.Join(mod, "\n") + "\n"}
	users := 1 + r.Intn(2)
	for u := 0; u < users; u++ {
		v := []string{"m", "lib", "md"}[r.Intn(3)]
		var ls []string
		ls = append(ls, fmt.Sprintf("local %s = require(\"mod\")", v), "local x = 1")
		var uses []string
		for _, f := range funcs {
			if r.Chance(2, 3) {
				uses = append(uses, fmt.Sprintf("%s.%s(x)", v, f))
			}
		}
		for _, f := range fields {
			if r.Chance(2, 3) {
				uses = append(uses, fmt.Sprintf("%s.%s", v, f))
			}
		}
		if nested {
			uses = append(uses, v+".sub.kk", v+".sub.fn2(x)", v+".top", v+".sub.top")
		}
		if len(uses) == 0 {
			uses = append(uses, "x")
		}
		uses = append(uses, v+":me(x)")
		ls = append(ls, "print("+strings.Join(uses, ", ")+")")
		files[fmt.Sprintf("user%d.lua", u+1)] = strings.Join(ls, "\n") + "\n"
	}
	return files
}

// genTwoDefWorkspace: a global table assigned in two files (each with members of its own) and read in a third
const c12K5 = "a member that is declared nowhere ('m.sub.top' where the table sub has no member top): go-to-definition falls back to the declaration of the longest known prefix (sub) and hover shows 'any' without the name, while find-references of that declaration does not list the position: p is not among the references of its own declaration, and hover does not name the identifier"

func genTwoDefWorkspace(r *lib.Rng) map[string]string {
	g := []string{"Shared", "Conf", "Reg"}[r.Intn(3)]
	return map[string]string{
		"a.lua": fmt.Sprintf("%s = { one = 1 }\nprint(%s.one)\n", g, g),
		"b.lua": fmt.Sprintf("local pad = 0\n%s = { two = 2 }\nprint(%s, %s.two, pad)\n", g, g, g),
		"c.lua": fmt.Sprintf("print(%s)\n", g),
	}
}

// genMemberWorkspace: one file with nested table members (t.sub.alpha, constructor fields two levels deep)
// and multiple assignments whose right-hand side is a single call (a, b = f()).
func genMemberWorkspace(r *lib.Rng) map[string]string {
	var ls []string
	ls = append(ls, "local function two()", "  return 1, 2", "end")
	blocks := [][]string{
		{"local t = {}", "t.sub = {}", "t.sub.alpha = 3", "t.sub.beta = t.sub.alpha", "print(t.sub.alpha, t.sub.beta, t.sub)"},
		{"local cfg = { inner = { depth = 3 }, top = 1 }", "print(cfg.inner.depth, cfg.top, cfg.inner)"},
		{"local p, q = 0, 0", "p, q = two()", "print(p, q)"},
		{"local p2, q2, r2 = 0, 0, 0", "p2, q2, r2 = 1, two()", "print(p2, q2, r2)"},
		{"local rec = {}", "rec.a, rec.b = 1, 2", "print(rec.a, rec.b)"},
		{"local rec2 = {}", "rec2.a, rec2.b = two()", "print(rec2.a, rec2.b)"},
		{"local deep = { l1 = { l2 = { l3 = 1 } } }", "deep.l1.l2.l3 = deep.l1.l2.l3 + 1", "print(deep.l1.l2, deep.l1)"},
		{"local u, w = two()", "local function uses()", "  u, w = two()", "  return u + w", "end", "print(uses)"},
		{"local level = 1", "_G.level = 5", "print(_G.level, level)", "_G.onlyg = 2", "print(_G.onlyg, onlyg)"},
		{"local Obj = {}", "Obj.count = 0", "function Obj:inc(step)", "  self.count = self.count + step", "  local cb = function(k)", "    self.count = self.count + k", "    return self.count", "  end", "  return cb(step)", "end", "print(Obj.count, Obj)"},
	}
	r.Shuffle(len(blocks), func(i, j int) { blocks[i], blocks[j] = blocks[j], blocks[i] })
	for _, b := range blocks[:3+r.Intn(4)] {
		if r.Chance(1, 3) {
			ls = append(ls, "do")
			for _, l := range b {
				ls = append(ls, "  "+l)
			}
			ls = append(ls, "end")
		} else {
			ls = append(ls, b...)
		}
	}
	// fixed (every workspace, no random draw): an intermediate member that only a deeper assignment introduces
	ls = append(ls, "local gap = {}", "gap.mid.leaf = 2", "print(gap.mid.leaf, gap.mid)", "_G.gcfg = {}", "gcfg.far.away = 3", "print(gcfg.far.away, gcfg.far)")
	return map[string]string{"main.lua": strings.Join(ls, "\n") + "\n"}
}

func genAnnotWorkspace(r *lib.Rng) map[string]string {
	cls := []string{"Foo", "Bar", "Node"}[r.Intn(3)]
	var ls []string
	ls = append(ls, "---@class "+cls, "---@field n number", "local "+cls+" = {}", "")
	blocks := [][]string{
		{"---@type " + cls, "gfoo = {}", "local a1 = gfoo", "print(a1, a1.n)"},
		{"---@type " + cls, "local lfoo = {}", "gb1 = lfoo", "print(gb1, gb1.n)"},
		{"---@type " + cls, "local lfoo2 = {}", "local a2 = lfoo2", "print(a2)"},
		{"---@type " + cls, "gfoo2 = {}", "gb2 = gfoo2", "print(gb2)"},
	}
	r.Shuffle(len(blocks), func(i, j int) { blocks[i], blocks[j] = blocks[j], blocks[i] })
	for _, b := range blocks[:2+r.Intn(3)] {
		ls = append(ls, b...)
		ls = append(ls, "")
	}
	return map[string]string{"main.lua": strings.Join(ls, "\n") + "\n"}
}

func c12Multi(res *lib.Result, dir string, files map[string]string, tag string, pi int) error {
	if err := lib.WriteWorkspace(dir, files); err != nil {
		return err
	}
	sess, err := lib.StartSession(dir, lib.AllChecksOptions())
	if err != nil {
		return err
	}
	defer sess.Close()
	var names []string
	for f := range files {
		names = append(names, f)
	}
	sort.Strings(names)
	var all []identPos
	for _, f := range names {
		sess.DidOpen(f, files[f])
		all = append(all, identTokens(f, files[f])...)
	}
	sess.Sync()
	var dump strings.Builder
	for _, f := range names {
		dump.WriteString("-- file " + f + "\n" + files[f])
	}
	key := func(file string, rg lib.Range) string { return file + "@" + locOfRange(rg) }
	localDecl := map[string]bool{}
	for _, p := range all {
		if p.afterLocal {
			localDecl[fmt.Sprintf("%s@%d:%d", p.file, p.line, p.col)] = true
		}
	}
	type defRes struct {
		k         string
		file      string
		line, col int
		ok        bool
	}
	defAt := map[string]defRes{}
	def := func(file string, line, col int) (defRes, error) {
		k := fmt.Sprintf("%s@%d:%d", file, line, col)
		if v, ok := defAt[k]; ok {
			return v, nil
		}
		locs, err := sess.Definition(file, line, col)
		if err != nil {
			return defRes{}, err
		}
		v := defRes{k: "-"}
		if len(locs) > 0 {
			v = defRes{k: key(sess.Rel(locs[0].URI), locs[0].Range), file: sess.Rel(locs[0].URI), line: locs[0].Range.Start.Line, col: locs[0].Range.Start.Character, ok: true}
		}
		defAt[k] = v
		return v, nil
	}
	for _, p := range all {
		if p.name == "print" || p.name == "require" {
			continue
		}
		caseText := fmt.Sprintf("%s#%d position %s %d:%d (%s) in\n%s", tag, pi, p.file, p.line, p.col, p.name, dump.String())
		lib.Breadcrumb("C12 " + caseText)
		d, err := def(p.file, p.line, p.col)
		if err != nil {
			res.AddViolation("crash-or-timeout", err.Error(), caseText, false)
			continue
		}
		refs, err := sess.References(p.file, p.line, p.col, true)
		if err != nil {
			res.AddViolation("crash-or-timeout", err.Error(), caseText, false)
			continue
		}
		hls, err := sess.Highlight(p.file, p.line, p.col)
		if err != nil {
			res.AddViolation("crash-or-timeout", err.Error(), caseText, false)
			continue
		}
		hov, err := sess.Hover(p.file, p.line, p.col)
		if err != nil {
			res.AddViolation("crash-or-timeout", err.Error(), caseText, false)
			continue
		}
		res.Count(fmt.Sprintf("%s/%d/%s:%d:%d", tag, pi, p.file, p.line, p.col), d.ok)
		res.Dist("multi." + tag)
		var problems []string
		var rl, hl []string
		for _, r := range refs {
			if sess.Rel(r.URI) == p.file {
				rl = append(rl, locOfRange(r.Range))
			}
		}
		for _, h := range hls {
			hl = append(hl, locOfRange(h))
		}
		sort.Strings(rl)
		sort.Strings(hl)
		if strings.Join(rl, " ") != strings.Join(hl, " ") {
			problems = append(problems, fmt.Sprintf("(iii) highlight [%s] differs from the references in the same file [%s]", strings.Join(hl, " "), strings.Join(rl, " ")))
		}
		for _, r := range refs {
			rd, err := def(sess.Rel(r.URI), r.Range.Start.Line, r.Range.Start.Character)
			if err != nil {
				problems = append(problems, err.Error())
				break
			}
			if rd.k != d.k {
				problems = append(problems, fmt.Sprintf("(i) reference %s resolves to %s but the queried position resolves to %s", key(sess.Rel(r.URI), r.Range), rd.k, d.k))
				break
			}
		}
		if d.ok {
			drefs, err := sess.References(d.file, d.line, d.col, true)
			if err == nil {
				found := false
				for _, r := range drefs {
					if sess.Rel(r.URI) == p.file && r.Range.Start.Line == p.line && r.Range.Start.Character == p.col {
						found = true
					}
				}
				if !found {
					problems = append(problems, fmt.Sprintf("(ii) the position is not among the references of its own declaration %s", d.k))
				}
			}
		}
		if hov != "" && hov != "null" && d.ok && p.name != "self" { // hovering self shows the table it stands for
			if !strings.Contains(hov, p.name) {
				problems = append(problems, fmt.Sprintf("(iv) hover %q does not name the identifier", lib.Trunc(hov, 80)))
			}
			isLocalHover := strings.Contains(hov, "local "+p.name) || strings.Contains(hov, "local function "+p.name)
			isLocalDef := localDecl[fmt.Sprintf("%s@%d:%d", d.file, d.line, d.col)]
			if isLocalHover != isLocalDef {
				problems = append(problems, fmt.Sprintf("(iv) hover %q presents local=%v but the definition %s is local=%v", lib.Trunc(hov, 80), isLocalHover, d.k, isLocalDef))
			}
		}
		if len(problems) > 0 {
			// class K3: a member access whose definition is an annotation field
			isMember := p.bcol > 0 && strings.Split(files[p.file], "\n")[p.line][p.bcol-1] == '.'
			if isMember && d.ok {
				dl := strings.Split(files[d.file], "\n")
				if d.line < len(dl) && strings.HasPrefix(strings.TrimSpace(dl[d.line]), "---@") {
					res.HitKnown("C12-K3", "find-references / highlight on a member 'v.f' whose definition is an annotation '---@field f': the member is ignored and the occurrences of the base variable v are returned (they resolve to v, not to the field)", caseText+"\n"+strings.Join(problems, "\n"))
					res.Dist("hit.C12-K3")
					continue
				}
			}
			// class K5: a member with no declaration anywhere: the definition is the declaration of its longest known
			// prefix (another identifier than the one under the cursor)
			if isMember && d.ok && !c12AssignedSomewhere(files, c12ParentOf(strings.Split(files[p.file], "\n")[p.line], p.bcol)+"."+p.name) {
				dl := strings.Split(files[d.file], "\n")
				if d.line < len(dl) && d.col+len(p.name) <= len(dl[d.line]) && dl[d.line][d.col:d.col+len(p.name)] != p.name ||
					(d.line < len(dl) && d.col+len(p.name) > len(dl[d.line])) {
					res.HitKnown("C12-K5", c12K5, caseText+"\n"+strings.Join(problems, "\n"))
					res.Dist("hit.C12-K5")
					continue
				}
			}
			// class K4: the definition is a constructor key nested three or more levels deep
			if d.ok {
				dl := strings.Split(files[d.file], "\n")
				if d.line < len(dl) && braceDepth(dl[d.line], d.col) >= 3 {
					res.HitKnown("C12-K4", "go-to-definition on a table-constructor key nested three or more levels deep ('local d = { a = { b = { c = 1 } } }', cursor on c) returns nothing (the key-position lookup returns at most a two-name prefix), while references from a use 'd.a.b.c' list that key: the reference does not resolve to the declaration, and the declaration has no references of its own", caseText+"\n"+strings.Join(problems, "\n"))
					res.Dist("hit.C12-K4")
					continue
				}
			}
			res.AddViolation("inconsistent-answers", strings.Join(problems, "; "), caseText, false)
		}
	}
	return nil
}

// braceDepth: number of table constructors open at column col of a line (templates keep constructors on one line)
func braceDepth(line string, col int) int {
	d := 0
	for i := 0; i < col && i < len(line); i++ {
		switch line[i] {
		case '{':
			d++
		case '}':
			d--
		}
	}
	return d
}

// c12AssignedSomewhere: some file assigns a member path that ends in or passes through the two-name path
// 'parent.name' as it is written at the cursor ('parent.name = v', 'parent.name.leaf = v', 'function parent.name()'):
// the member has a declaration, class K5 ("declared nowhere") does not apply
func c12AssignedSomewhere(files map[string]string, name string) bool {
	q := regexp.QuoteMeta(name)
	re := regexp.MustCompile(`(^|[^A-Za-z0-9_])` + q + `\s*((\.[A-Za-z_][A-Za-z0-9_]*|\[[^\]]*\])\s*)*=([^=]|$)|function\s+[A-Za-z0-9_.:]*[.:]` + q + `\s*\(`)
	for _, t := range files {
		for _, l := range strings.Split(t, "\n") {
			if re.MatchString(l) {
				return true
			}
		}
	}
	return false
}

// c12ParentOf: the identifier directly before the '.' that precedes byte column bcol
func c12ParentOf(line string, bcol int) string {
	e := bcol - 1
	b := e
	for b > 0 && (line[b-1] == '_' || line[b-1] >= '0' && line[b-1] <= '9' || line[b-1] >= 'a' && line[b-1] <= 'z' || line[b-1] >= 'A' && line[b-1] <= 'Z') {
		b--
	}
	return line[b:e]
}
