// harness: correspondence / search side of the LuaHelper verification (see /verif/DESIGN.md).
// usage: harness <property> --tier quick|thorough --seed N --out result.json
package main

import (
	"flag"
	"fmt"
	"os"
	"sort"

	"verifharness/lib"
)

type runner func(res *lib.Result, tier string, seed int64, args []string) error

var runners = map[string]runner{}

func register(name string, r runner) { runners[name] = r }

func main() {
	if len(os.Args) < 2 {
		usage()
	}
	name := os.Args[1]
	fs := flag.NewFlagSet(name, flag.ExitOnError)
	tier := fs.String("tier", "quick", "quick|thorough")
	seed := fs.Int64("seed", 1, "PRNG seed")
	out := fs.String("out", "", "result JSON path")
	fs.Parse(os.Args[2:])
	r, ok := runners[name]
	if !ok {
		usage()
	}
	res := lib.NewResult(name, *tier, *seed)
	err := r(res, *tier, *seed, fs.Args())
	if err != nil {
		res.Note("harness error: %v", err)
		res.AddViolation("harness-error", err.Error(), "", true)
	}
	if *out != "" {
		if werr := res.Write(*out); werr != nil {
			fmt.Fprintln(os.Stderr, "cannot write result:", werr)
			os.Exit(2)
		}
	}
	fmt.Printf("%s: evaluations=%d distinct=%d known=%d violations=%d\n", name, res.Evaluations, res.Distinct, len(res.Known), len(res.Violations))
	if len(res.Violations) > 0 {
		os.Exit(1)
	}
}

func usage() {
	names := []string{}
	for k := range runners {
		names = append(names, k)
	}
	sort.Strings(names)
	fmt.Fprintln(os.Stderr, "usage: harness <property> [--tier quick|thorough] [--seed N] [--out file]; properties:", names)
	os.Exit(2)
}
