package main

import (
	"fmt"
	"os"
	"sort"
	"strings"

	"verifharness/lib"
)

func init() { register("C11", runC11) }

// freshLike returns an identifier of the same length as name that does not occur in src.
func freshLike(name, src string) string {
	for _, first := range "qQzZwWkK" {
		cand := string(first) + name[1:]
		if len(name) == 1 {
			cand = string(first)
		}
		if cand != name && !luaKeywords[cand] && !strings.Contains(src, cand) {
			return cand
		}
	}
	return ""
}

// byteCol converts an LSP character offset (UTF-16 code units) on a line to a byte offset; -1 if it lies beyond
// the line or inside a character
func byteCol(line string, col int) int {
	units := 0
	for i, r := range line {
		if units == col {
			return i
		}
		units++
		if r > 0xFFFF {
			units++
		}
	}
	if units == col {
		return len(line)
	}
	return -1
}

func applyEdits(src string, edits []lib.TextEdit) (string, error) {
	lines := strings.Split(src, "\n")
	sort.Slice(edits, func(i, j int) bool {
		a, b := edits[i].Range.Start, edits[j].Range.Start
		return a.Line > b.Line || (a.Line == b.Line && a.Character > b.Character)
	})
	for _, e := range edits {
		if e.Range.Start.Line != e.Range.End.Line || e.Range.Start.Line >= len(lines) {
			return "", fmt.Errorf("edit range %v is not inside one line of the file", e.Range)
		}
		l := lines[e.Range.Start.Line]
		bs, be := byteCol(l, e.Range.Start.Character), byteCol(l, e.Range.End.Character)
		if bs < 0 || be < 0 || bs > be {
			return "", fmt.Errorf("edit range %v lies outside line %q", e.Range, l)
		}
		lines[e.Range.Start.Line] = l[:bs] + e.NewText + l[be:]
	}
	return strings.Join(lines, "\n"), nil
}

func runC11(res *lib.Result, tier string, seed int64, args []string) error {
	nProg := 60
	if tier == "thorough" {
		nProg = 3000
	}
	res.Rule = "generated programs as in C05; for every declaration and a sample of uses the real textDocument/rename with a fresh identifier of the same length: (a) edits pairwise disjoint, (b) each covers exactly one identifier spelled with the old name, (c) the edited set = the model's reference set, (d) after applying the edit S-bind gives every occurrence the same declaration as before and exactly the binding class carries the new name; (c)/(d) failures are excused only in the C05/C06 finding classes; non-trivial = at least two edits; distinct by (program, position)"
	drv, err := lib.StartDriver()
	if err != nil {
		return err
	}
	defer drv.Close()
	dir := lib.ScratchDir("c11")
	defer os.RemoveAll(dir)
	root := lib.NewRng(uint64(seed))
	for pi, src := range scopePrograms(root, "C11", nProg) {
		if pi%3 == 1 {
			// a table with methods that use the implicit self: references of the table list `self` (it stands for
			// the table), a rename of the table must not rewrite it
			src += scopeMethodBlock
		}
		occs, sess, err := scopeProgram(drv, dir, src)
		if err != nil {
			return err
		}
		r := root.Fork(uint64(777000 + pi))
		lines := strings.Split(src, "\n")
		for _, o := range occs {
			if o.kind != "D" && !r.Chance(1, 4) {
				continue
			}
			if o.name == "self" {
				// the implicit parameter: the server resolves it to the table the method belongs to (documented); an explicitly
				// declared self inside a colon method is treated the same way — recorded under C05-K3, not renamed here
				continue
			}
			newName := freshLike(o.name, src)
			if newName == "" {
				continue
			}
			caseText := fmt.Sprintf("rename at %d:%d (%s -> %s) in\n%s", o.sl-1, o.sc, o.name, newName, src)
			lib.Breadcrumb("C11 " + caseText)
			changes, err := sess.Rename("main.lua", o.sl-1, o.sc, newName)
			if err != nil {
				res.AddViolation("crash-or-timeout", err.Error(), caseText, false)
				continue
			}
			var edits []lib.TextEdit
			for uri, es := range changes {
				if sess.Rel(uri) != "main.lua" {
					res.AddViolation("impl-vs-spec", "rename edits a file other than the one containing the variable: "+uri, caseText, false)
				}
				edits = append(edits, es...)
			}
			res.Count(fmt.Sprintf("%d/%d:%d", pi, o.sl, o.sc), len(edits) >= 2)
			if pi < 1 && len(res.Samples) < 3 {
				res.Sample(map[string]interface{}{"case": lib.Trunc(caseText, 300), "edits": len(edits)})
			}
			// (a) disjoint, (b) each covers exactly the old identifier
			seen := map[string]bool{}
			var got []string
			bad := ""
			for _, e := range edits {
				k := locOfRange(e.Range)
				if seen[k] {
					bad = "duplicate / overlapping edit " + k
				}
				seen[k] = true
				got = append(got, k)
				covered := ""
				if e.Range.Start.Line < len(lines) && e.Range.Start.Line == e.Range.End.Line {
					l := lines[e.Range.Start.Line]
					if bs, be := byteCol(l, e.Range.Start.Character), byteCol(l, e.Range.End.Character); bs >= 0 && be >= bs {
						covered = l[bs:be]
					}
				}
				if covered != o.name {
					bad = fmt.Sprintf("edit %s does not cover exactly the identifier %q", k, o.name)
				}
				if e.NewText != newName {
					bad = fmt.Sprintf("edit %s inserts %q instead of the new name", k, e.NewText)
				}
			}
			if bad != "" {
				res.AddViolation("impl-vs-spec", bad, caseText, false)
				continue
			}
			sort.Strings(got)
			// (c) against the reference-set model
			target := o.ms
			if target == "-" {
				target = "G"
			}
			model := refsBy(occs, o.name, target, func(x scopeOcc) string { return x.t })
			spec := refsBy(occs, o.name, o.s, func(x scopeOcc) string { return x.s })
			multi, defined := 0, false
			for _, x := range occs {
				if x.name == o.name && x.t == "G" && x.kind == "W" {
					multi++
					defined = true
				}
			}
			gs, ms, ss := strings.Join(got, " "), strings.Join(model, " "), strings.Join(spec, " ")
			if target == "G" && (multi > 1 || !defined) {
				// a global with several assignment sites (which one is "the" definition is the rank rule of the third pass, not
				// in the reference model) or with none: the edits are compared with Lua's binding directly — every occurrence
				if gs == ss {
					res.Dist("global.multi-or-undefined.exact")
					ms = gs // go on with (d)
				} else if !defined {
					res.HitKnown("C11-K3", "rename of a global that no file assigns (only read) edits nothing", fmt.Sprintf("rename edits [%s] but the occurrences of the global are [%s]\n%s", gs, ss, caseText))
					res.Dist("hit.C11-K3")
					continue
				} else {
					res.HitKnown("C11-K2", "rename of a global with several assignment sites leaves an assignment the rank rule does not count as the definition (e.g. the first one, inside a function, before a later top-level one) unedited: the renamed program assigns another global there", fmt.Sprintf("rename edits [%s] but the occurrences of the global are [%s]\n%s", gs, ss, caseText))
					res.Dist("hit.C11-K2")
					continue
				}
			}
			if gs != ms {
				res.AddViolation("impl-vs-model", fmt.Sprintf("rename edits [%s], the reference model predicts [%s], the binding class is [%s]", gs, ms, ss), caseText, !(gs != ss))
				continue
			}
			// (d) apply and re-bind
			newSrc, err := applyEdits(src, edits)
			if err != nil {
				res.AddViolation("impl-vs-spec", err.Error(), caseText, false)
				continue
			}
			ans, err := drv.Ask(fmt.Sprintf("scope %s %s", lib.Hex([]byte(newSrc)), lib.ConvTableFor([]byte(newSrc))))
			if err != nil {
				return err
			}
			problem := ""
			if strings.HasPrefix(ans, "ERR") {
				problem = "the renamed program has syntax errors"
			} else {
				nocc, err := parseScopeAnswer(ans)
				if err != nil {
					return err
				}
				if len(nocc) != len(occs) {
					problem = "the renamed program has a different number of identifier occurrences"
				} else {
					for i := range occs {
						inClass := occs[i].name == o.name && occs[i].s == o.s
						wantName := occs[i].name
						if inClass {
							wantName = newName
						}
						if nocc[i].s != occs[i].s || occLoc(nocc[i]) != occLoc(occs[i]) || nocc[i].name != wantName {
							problem = fmt.Sprintf("occurrence %s: before %s bound to %s, after %s bound to %s", occLoc(occs[i]), occs[i].name, occs[i].s, nocc[i].name, nocc[i].s)
							break
						}
					}
				}
			}
			if problem != "" {
				res.AddViolation("impl-vs-spec", "applying the rename changes the binding structure: "+problem, caseText, false)
			}
		}
		sess.Close()
	}
	if err := c11Globals(res, tier, root); err != nil {
		return err
	}
	return nil
}

// second family: renaming a global from any of its occurrences, in the defining file or in another
// file, must edit EVERY occurrence in both files (definition, re-assignments, reads)
func c11Globals(res *lib.Result, tier string, root *lib.Rng) error {
	n := 20
	if tier == "thorough" {
		n = 1000
	}
	for wi := 0; wi < n; wi++ {
		r := root.Fork(uint64(6100000 + wi))
		files, ng := genGlobalWorld(r)
		dir := lib.ScratchDir(fmt.Sprintf("c11g%d", wi))
		// every other world: b.lua starts with a byte-order mark on disk and is not open (its text is read from the
		// file when the edit is put together); the mark is not part of the text positions refer to
		bomClosed := wi%2 == 1
		onDisk := map[string]string{"a.lua": files["a.lua"], "b.lua": files["b.lua"]}
		if bomClosed {
			onDisk["b.lua"] = "\xEF\xBB\xBF" + files["b.lua"]
		}
		if err := lib.WriteWorkspace(dir, onDisk); err != nil {
			return err
		}
		sess, err := lib.StartSession(dir, lib.AllChecksOptions())
		if err != nil {
			os.RemoveAll(dir)
			return err
		}
		sess.DidOpen("a.lua", files["a.lua"])
		if !bomClosed {
			sess.DidOpen("b.lua", files["b.lua"])
		}
		sess.Sync()
		all := append(identTokens("a.lua", files["a.lua"]), identTokens("b.lua", files["b.lua"])...)
		world := "-- a.lua\n" + files["a.lua"] + "-- b.lua\n" + files["b.lua"]
		for g := 0; g < ng; g++ {
			name := fmt.Sprintf("gv%d", g)
			var want []string
			for _, p := range all {
				if p.name == name {
					want = append(want, fmt.Sprintf("%s:%d:%d-%d", p.file, p.line, p.col, p.col+len(name)))
				}
			}
			sort.Strings(want)
			for _, p := range all {
				if p.name != name || (bomClosed && p.file == "b.lua") {
					continue
				}
				caseText := fmt.Sprintf("rename at %s %d:%d (%s -> zz%d) in\n%s", p.file, p.line, p.col, name, g, world)
				if bomClosed {
					caseText += "(b.lua is not open and starts with a byte-order mark on disk)\n"
				}
				lib.Breadcrumb("C11 " + caseText)
				ch, err := sess.Rename(p.file, p.line, p.col, fmt.Sprintf("zz%d", g))
				if err != nil {
					res.AddViolation("crash-or-timeout", err.Error(), caseText, false)
					continue
				}
				var got []string
				for uri, es := range ch {
					for _, e := range es {
						got = append(got, fmt.Sprintf("%s:%d:%d-%d", sess.Rel(uri), e.Range.Start.Line, e.Range.Start.Character, e.Range.End.Character))
					}
				}
				sort.Strings(got)
				res.Count(fmt.Sprintf("g%d/%s/%s:%d:%d", wi, name, p.file, p.line, p.col), len(want) >= 3)
				res.Dist("global-family")
				if strings.Join(got, " ") != strings.Join(want, " ") {
					res.AddViolation("impl-vs-spec", fmt.Sprintf("rename of the global %s edits [%s], its occurrences are [%s]", name, strings.Join(got, " "), strings.Join(want, " ")), caseText, false)
				}
			}
		}
		sess.Close()
		os.RemoveAll(dir)
	}
	return nil
}
