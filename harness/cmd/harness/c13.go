package main

import (
	"fmt"
	"os"
	"strings"

	"verifharness/lib"

	"luahelper-lsp/langserver/check"
	"luahelper-lsp/langserver/codingconv"
)

func init() { register("C13", runC13) }

var c13Scripts = map[string][]string{
	"ascii":  {"returns the total", "note: x > 0", "simple", "* fast bullet", "*important* flag", "1. numbered", "a - b -- c", "50% of the base rate", "format is %d items, 100%s"},
	"two":    {"Größe des Feldes", "привет мир", "café déjà vu", "αβγ δ"},
	"three":  {"返回总数", "合計を返す", "한국어 설명"},
	"astral": {"emoji 😀 ok", "𝄞 clef", "🚀🚀"},
	"mixed3": {"total 总数 ok", "値 x を返す"},
}

func runC13(res *lib.Result, tier string, seed int64, args []string) error {
	nUnit, nE2E := 4000, 60
	if tier == "thorough" {
		nUnit, nE2E = 400000, 3000
	}
	res.Rule = "unit: random byte strings (ASCII, 2/3/4-byte sequences, stray and truncated bytes) through the real isUtf8 and getFinalStrComment vs the models; comment map: files generated line by line (blank, statement, statement with trailing comment, short comment, one-line / multi-line long comment, long comment before a statement) whose token gaps are known by construction: the real lexer's comment map and the real GetLineComment of every line vs the Lean model (theorems block_is_run, blocks_partition, blocks_maximal, blank_line_separates, trailing_alone); e2e: declarations (locals, globals, functions, table members) with a trailing comment or a leading comment block written in ASCII / 2-byte / 3-byte / astral scripts, hover on a use: the label must contain the identifier (and 'local' for locals, the parameter list for functions) and the documentation must be the comment verbatim; 2-byte scripts fall into class K1; non-trivial = a non-ASCII string / a hover with documentation; distinct by input"
	drv, err := lib.StartDriver()
	if err != nil {
		return err
	}
	defer drv.Close()
	root := lib.NewRng(uint64(seed))
	pieces := [][]byte{{0x61}, {0x20}, {0x2d}, {0x2a}, {0x0a}, {0xc3, 0xa9}, {0xd0, 0xb6}, {0xe4, 0xb8, 0xad}, {0xe2, 0x82, 0xac}, {0xf0, 0x9f, 0x98, 0x80},
		{0x80}, {0xc3}, {0xe4, 0xb8}, {0xff}, {0xf8, 0x88, 0x80, 0x80, 0x80}, {0xc0, 0x41}, {0x7a}}
	for i := 0; i < nUnit; i++ {
		r := root.Fork(uint64(i))
		var s []byte
		for k := r.Intn(7); k > 0; k-- {
			s = append(s, pieces[r.Intn(len(pieces))]...)
		}
		nonASCII := false
		for _, b := range s {
			if b >= 0x80 {
				nonASCII = true
			}
		}
		res.Count(string(s), nonASCII)
		impl := "0"
		if codingconv.VerifIsUtf8(s) {
			impl = "1"
		}
		m, err := drv.Ask("utf8 " + lib.Hex(s))
		if err != nil {
			return err
		}
		if m != impl {
			res.AddViolation("impl-vs-model", fmt.Sprintf("isUtf8: implementation %s model %s", impl, m), lib.Hex(s), true)
		}
		// ConvertStrToUtf8 must be the identity whenever isUtf8 holds
		if impl == "1" && codingconv.ConvertStrToUtf8(string(s)) != string(s) {
			res.AddViolation("impl-vs-spec", "ConvertStrToUtf8 alters a string that isUtf8 accepts", lib.Hex(s), false)
		}
		// comment clean-up
		ci := check.VerifFinalStrComment(string(s), false)
		cm, err := drv.Ask("cmt " + lib.Hex(s))
		if err != nil {
			return err
		}
		if lib.Hex([]byte(ci)) != cm {
			res.AddViolation("impl-vs-model", fmt.Sprintf("getFinalStrComment: implementation %q model %q", ci, string(lib.UnHex(cm))), lib.Hex(s), true)
		}
	}
	// ---------------- comment map and GetLineComment vs the Lean model ----------------
	nMap := 300
	if tier == "thorough" {
		nMap = 20000
	}
	if err := c13CommentMap(res, drv, root, nMap); err != nil {
		return err
	}
	// ---------------- e2e hover ----------------
	dir := lib.ScratchDir("c13")
	defer os.RemoveAll(dir)
	scripts := []string{"ascii", "two", "three", "astral", "mixed3"}
	for i := 0; i < nE2E; i++ {
		r := root.Fork(uint64(7000000 + i))
		script := scripts[r.Intn(len(scripts))]
		pick := func() string { l := c13Scripts[script]; return l[r.Intn(len(l))] }
		type decl struct {
			line    int
			name    string
			comment string
			local   bool
			params  string
			vararg  bool
			markers []string
			use     string // how the name is written at the use site (members: T.name)
			declCol int    // > 0: the column of the name on a declaration line that ends in a trailing annotation
		}
		var detached []string // markers of comments separated from every declaration by a blank line
		marker := 0
		mark := func() string { marker++; return fmt.Sprintf(" zq%dz", marker) }
		// fixed head: a long string that spans lines, with a trailing comment on its last line; the undocumented
		// declaration on the next line must not inherit that comment
		lines := []string{"local T = {}", "GT = {}", "local zqbanner = [[", "line one", "line two]] -- trailing of the long string zqBz", "local zqlimit = 10", "print(zqbanner, zqlimit)", ""}
		var decls []decl
		add := func(kind int) {
			name := fmt.Sprintf("v%d", len(decls)+1)
			if (kind == 0 || kind == 1) && r.Chance(1, 4) {
				// a user variable named like a built-in function: its own declaration and comment are what hover shows
				cand := []string{"next", "type", "error", "select", "assert", "pairs"}[r.Intn(6)]
				taken := false
				for _, e := range decls {
					taken = taken || e.name == cand
				}
				if !taken {
					name = cand
				}
			}
			// kind 6: an alias of an earlier local value, with a comment of its own (which is its documentation, not
			// the comment of the variable it is initialised with)
			aliasOf := ""
			if kind == 6 {
				for _, e := range decls {
					if e.local && e.params == "" && !e.vararg && e.use == e.name && e.declCol == 0 {
						aliasOf = e.name
					}
				}
				if aliasOf == "" {
					kind = 0
				}
			}
			if r.Chance(1, 4) {
				// a comment that is not attached to anything: one or two blank lines follow it
				dm := mark()
				detached = append(detached, dm)
				lines = append(lines, "-- "+pick()+dm, "")
				if r.Chance(1, 3) {
					lines = append(lines, "")
				}
			}
			m1 := mark()
			c1 := pick() + m1
			if len(decls)%5 == 1 {
				c1 = "-5 is the minimum, " + c1 // a comment text that itself begins with a hyphen
			}
			if len(decls)%4 == 2 {
				c1 += " 1-" // a comment that ends with a hyphen (and one that ends with two, below)
			} else if len(decls)%4 == 3 {
				c1 += " --"
			}
			comment := c1
			markers := []string{m1}
			trailing := r.Chance(1, 2)
			bare := r.Chance(1, 5) // no comment at all: must not inherit a neighbour's
			if aliasOf != "" {
				bare = false
			}
			if bare {
				trailing, comment, markers = false, "", nil
			} else if !trailing {
				if r.Chance(1, 2) {
					m2 := mark()
					c2 := pick() + m2
					lines = append(lines, "-- "+c1, "-- "+c2)
					comment = c1 + "\n" + c2
					markers = append(markers, m2)
				} else {
					lines = append(lines, "-- "+c1)
				}
			}
			d := decl{line: len(lines), name: name, comment: comment, markers: markers, use: name}
			tbl := "T"
			if r.Chance(1, 2) {
				tbl = "GT"
			}
			var text string
			// every third value is a string literal with two-byte characters: the label shows it, and the documentation next to
			// it (in whatever script) is still to be reproduced verbatim
			val := func(plain string) string {
				if len(decls)%3 == 1 {
					return []string{"\"Zo\u00eb\"", "\"K\u00f6ln\"", "\"\u00e9\""}[len(decls)%3]
				}
				return plain
			}
			switch kind {
			case 4:
				d.use = tbl + "." + name
				if r.Chance(1, 2) {
					text = "function " + tbl + "." + name + "(aa, bb)"
				} else {
					text = "function " + tbl + ":" + name + "(aa, bb)"
				}
				d.params = "aa, bb"
			case 5:
				d.use = tbl + "." + name
				text = tbl + "." + name + " = " + val("3")
			case 6:
				text = "local " + name + " = " + aliasOf
				d.local = true
			case 0:
				text = "local " + name + " = " + val("1")
				d.local = true
			case 1:
				text = name + " = " + val("2")
			case 2:
				d.local = true
				switch r.Intn(3) {
				case 0:
					d.params = "aa, bb"
					text = "local function " + name + "(aa, bb)"
				case 1:
					d.params, d.vararg = "aa", true
					text = "local function " + name + "(aa, ...)"
				default:
					d.vararg = true
					text = "local function " + name + "(...)"
				}
			default:
				if r.Chance(1, 3) {
					d.vararg = true
					text = "function " + name + "(...)"
				} else {
					text = "function " + name + "(cc)"
					d.params = "cc"
				}
			}
			if trailing {
				text += " -- " + c1
			} else if bare && (kind == 0 || kind == 1) && r.Chance(1, 2) {
				// an annotation behind the declaration on its own line: the code in front of it is still code
				text += " ---@type number"
				d.declCol = strings.Index(text, name)
			}
			lines = append(lines, text)
			if kind >= 2 && kind != 5 && kind != 6 {
				lines = append(lines, "  return 1", "end")
			}
			if r.Chance(1, 2) {
				lines = append(lines, "")
			}
			decls = append(decls, d)
		}
		n := 2 + r.Intn(3)
		for k := 0; k < n; k++ {
			add(r.Intn(7))
		}
		useLine := len(lines)
		var uses []string
		for _, d := range decls {
			uses = append(uses, d.use)
		}
		lines = append(lines, "print("+strings.Join(uses, ", ")+")")
		// the same names as the right operand of a concatenation whose left operand ends in a quote or a space
		concatLine := len(lines)
		for k, u := range uses {
			lines = append(lines, "print(\"s\""+[]string{"..", " ..", ".. "}[k%3]+u+")")
		}
		// a third of the workspaces is written with CRLF line ends (the documentation must not carry the CR)
		eol := "\n"
		if i%3 == 1 {
			eol = "\r\n"
			res.Dist("e2e.crlf")
		}
		src := strings.Join(lines, eol) + eol
		// a second file that uses the globals of main.lua; every line up to its print carries a comment of its own,
		// at the line numbers of main.lua's declarations: the documentation of a global is the comment in the file
		// that declares it
		var gdecls []decl
		var ulines, guses []string
		for _, d := range decls {
			if !d.local && !strings.HasPrefix(d.use, "T.") {
				gdecls = append(gdecls, d)
				guses = append(guses, d.use)
			}
		}
		for k := 0; k < len(lines)+2; k++ {
			if k%3 == 2 {
				ulines = append(ulines, fmt.Sprintf("local un%d = %d -- user note zqU%dz", k, k, k))
			} else {
				ulines = append(ulines, fmt.Sprintf("-- user note zqU%dz", k))
			}
		}
		userUseLine := len(ulines)
		ulines = append(ulines, "print("+strings.Join(guses, ", ")+")")
		usrc := strings.Join(ulines, eol) + eol
		// every other workspace: what is on disk is an OLDER main.lua (same lines, other comment words); the client opens the
		// file with its current text, so the documentation to show is the buffer's, not the file's
		diskSrc := src
		if i%2 == 0 {
			diskSrc = strings.ReplaceAll(src, " zq", " zy")
			res.Dist("e2e.buffer-differs-from-disk")
		}
		if err := lib.WriteWorkspace(dir, map[string]string{"main.lua": diskSrc, "user.lua": usrc}); err != nil {
			return err
		}
		sess, err := lib.StartSession(dir, lib.AllChecksOptions())
		if err != nil {
			return err
		}
		sess.DidOpen("main.lua", src)
		sess.Sync()
		if hz, err := sess.Hover("main.lua", 5, 6); err == nil && (strings.Contains(hz, "zqBz") || !strings.Contains(hz, "zqlimit")) {
			res.AddViolation("impl-vs-spec", fmt.Sprintf("the undocumented local zqlimit shows %q: the comment behind the long string on the line above is not its documentation", lib.Trunc(hz, 200)), src, false)
		}
		col := len("print(")
		for _, d := range decls {
			caseText := fmt.Sprintf("hover at %d:%d (%s, script %s) in\n%s", useLine, col, d.name, script, src)
			lib.Breadcrumb("C13 " + caseText)
			hov, err := sess.Hover("main.lua", useLine, col+len(d.use)-len(d.name))
			col += len(d.use) + 2
			if err != nil {
				res.AddViolation("crash-or-timeout", err.Error(), caseText, false)
				continue
			}
			res.Count(caseText, true)
			res.Dist("script." + script)
			if i < 1 {
				res.Sample(map[string]string{"case": lib.Trunc(caseText, 300), "hover": lib.Trunc(hov, 200)})
			}
			var problems []string
			if !strings.Contains(hov, d.name) {
				problems = append(problems, "label does not contain the identifier")
			}
			if d.declCol > 0 {
				if h3, err := sess.Hover("main.lua", d.line, d.declCol); err == nil && !strings.Contains(h3, d.name) {
					problems = append(problems, fmt.Sprintf("hover on the declared name in %q is %q", lines[d.line], lib.Trunc(h3, 80)))
				}
				if locs, err := sess.Definition("main.lua", d.line, d.declCol); err == nil && len(locs) == 0 {
					problems = append(problems, fmt.Sprintf("go-to-definition on the declared name in %q finds nothing", lines[d.line]))
				}
			}
			{
				k := 0
				for j := range decls {
					if decls[j].name == d.name {
						k = j
					}
				}
				cl := lines[concatLine+k]
				if h2, err := sess.Hover("main.lua", concatLine+k, strings.LastIndex(cl, d.name)); err == nil && h2 != hov {
					problems = append(problems, fmt.Sprintf("hover on the same name in %q is %q", cl, lib.Trunc(h2, 120)))
				}
			}
			if d.local != strings.Contains(hov, "local ") {
				problems = append(problems, fmt.Sprintf("label says local=%v, declaration is local=%v", strings.Contains(hov, "local "), d.local))
			}
			if d.params != "" || d.vararg {
				// the label renders "name(p1: type, p2: type)": the parameter names in order, in parentheses
				i := strings.Index(hov, d.name+"(")
				ok := i >= 0
				if ok {
					rest := hov[i+len(d.name)+1:]
					if j := strings.Index(rest, ")"); j >= 0 {
						rest = rest[:j]
					}
					want := strings.Split(d.params, ", ")
					if d.params == "" {
						want = nil
					}
					if d.vararg {
						want = append(want, "...")
					}
					for _, p := range want {
						k := strings.Index(rest, p)
						if k < 0 {
							ok = false
							break
						}
						rest = rest[k+len(p):]
					}
				}
				if !ok {
					problems = append(problems, "label does not show the parameter list")
				}
			}
			for _, o := range decls {
				if o.name == d.name {
					continue
				}
				for _, m := range o.markers {
					if strings.Contains(hov, m) {
						problems = append(problems, fmt.Sprintf("shows the comment of another declaration (%s)", o.name))
					}
				}
			}
			for _, m := range detached {
				if strings.Contains(hov, m) {
					problems = append(problems, "shows a comment that is separated from every declaration by a blank line ("+strings.TrimSpace(m)+")")
				}
			}
			docOK := true
			for _, cl := range strings.Split(d.comment, "\n") {
				if cl != "" && !strings.Contains(hov, cl) {
					docOK = false
				}
				// the line end is not part of the comment (files written with CRLF)
				if k := strings.Index(hov, cl); cl != "" && k >= 0 && strings.HasPrefix(hov[k+len(cl):], "\r") {
					problems = append(problems, fmt.Sprintf("the documentation line %q is followed by a carriage return in %q", cl, lib.Trunc(hov, 200)))
				}
			}
			if !docOK {
				if script == "two" {
					res.HitKnown("C13-K1", "documentation written in a script that uses 2-byte UTF-8 sequences (Latin-1 supplement, Greek, Cyrillic …) is re-decoded as GBK by ConvertStrToUtf8 and shown as mojibake (isUtf8 rejects every 2-byte sequence: theorem isUtf8_rejects_two_byte)", caseText+"\nhover: "+lib.Trunc(hov, 200))
					res.Dist("hit.C13-K1")
				} else {
					problems = append(problems, fmt.Sprintf("documentation %q is not reproduced verbatim in %q", d.comment, lib.Trunc(hov, 200)))
				}
			}
			if len(problems) > 0 {
				res.AddViolation("impl-vs-spec", strings.Join(problems, "; "), caseText, false)
			}
		}
		if len(gdecls) > 0 {
			sess.DidOpen("user.lua", usrc)
			sess.Sync()
			ucol := len("print(")
			for _, d := range gdecls {
				caseText := fmt.Sprintf("hover at user.lua %d:%d (%s declared in main.lua, script %s)\n-- main.lua\n%s-- user.lua\n%s", userUseLine, ucol, d.name, script, src, usrc)
				hov, err := sess.Hover("user.lua", userUseLine, ucol+len(d.use)-len(d.name))
				ucol += len(d.use) + 2
				if err != nil {
					res.AddViolation("crash-or-timeout", err.Error(), caseText, false)
					continue
				}
				res.Count(caseText, true)
				res.Dist("cross-file")
				var problems []string
				if strings.Contains(hov, "zqU") {
					problems = append(problems, "shows a comment of the requesting file, not of the file that declares the symbol")
				}
				docOK := true
				for _, cl := range strings.Split(d.comment, "\n") {
					if cl != "" && !strings.Contains(hov, cl) {
						docOK = false
					}
				}
				if !docOK && script != "two" {
					problems = append(problems, fmt.Sprintf("documentation %q is not reproduced verbatim in %q", d.comment, lib.Trunc(hov, 200)))
				}
				if len(problems) > 0 {
					res.AddViolation("impl-vs-spec", strings.Join(problems, "; "), caseText, false)
				}
			}
		}
		sess.Close()
	}
	return nil
}
