package main

import (
	"strings"

	"verifharness/lib"
)

// lexemes for the token-soup generator: every token class, numerals and strings of every form,
// comments, all line endings, non-ASCII in strings / comments / bare.
var soupLexemes = []string{
	"local", "x", "y1", "_z", "function", "end", "if", "then", "else", "elseif", "while", "do", "for", "in", "repeat",
	"until", "return", "break", "goto", "nil", "true", "false", "and", "or", "not",
	"+", "-", "*", "/", "//", "%", "^", "#", "&", "~", "|", "<<", ">>", "==", "~=", "<=", ">=", "<", ">", "=",
	"(", ")", "{", "}", "[", "]", "::", ";", ":", ",", ".", "..", "...",
	"0", "12", "3.5", ".5", "1e5", "1E-3", "0x1F", "0XaBp+2", "0x.8", "1..2", "0x", "3e", "7ll", "9ULL", "0x1Fll", "1e999", "5.", "08",
	"\"a\"", "'b c'", "\"e\\n\"", "\"q\\\"q\"", "'\\65\\x41'", "\"\\z  \n  k\"", "\"\\u{48}\"", "\"中\"", "\"é\"", "\"😀\"", "\"tab\\t\"", "\"\\\n\"", "\"\\\xe4x\"", "'\\\xc3\xa9'", "\"\\\xff\"", "\"\\中\"", // a backslash in front of a byte above 0x7F
	// sequences the server's lenient isUtf8 accepts but a strict decoder does not (overlong, surrogate, above U+10FFFF, truncated)
	"\"\xf0\x80\x9f\xb8\"", "\xf0\x80\x9f\xb8", "\"\xe0\x80\x80x\"", "'\xed\xa0\x80'", "\"\xf4\x90\x80\x80\"", "\xe4\xb8", "\"\xf0\x9f\x98\"",
	"[[long]]", "[==[a]]b]==]", "[[\nfirst]]", "[[l1\nl2]]", "[=[", "[=", "\"unfinished", "'x\n",
	"--c", "-- comment é", "--[[lc]]", "--[==[ m\nn ]==]", "--[[ unterminated", "--[=x",
	"@", "$", "中文", "é", "`", "\\", "?",
}

var soupSeps = []string{" ", " ", " ", "\t", "\n", "\r\n", "\r", "\n\r", "", "  ", "\n\n", "\v", "\f"}

func genSoup(r *lib.Rng, maxTokens int) string {
	n := r.Intn(maxTokens + 1)
	var sb strings.Builder
	if r.Chance(1, 30) {
		sb.WriteString("\xef\xbb\xbf")
	}
	if r.Chance(1, 30) {
		sb.WriteString("#!/usr/bin/lua\n")
	}
	for i := 0; i < n; i++ {
		sb.WriteString(soupLexemes[r.Intn(len(soupLexemes))])
		sb.WriteString(soupSeps[r.Intn(len(soupSeps))])
	}
	return sb.String()
}

func genRawBytes(r *lib.Rng, maxLen int) []byte {
	n := r.Intn(maxLen + 1)
	alphabet := []byte("ab1 .\"'[]=-\\\n\r\t{}()xe+0\x80\xc3\xa9\xe4\xb8\xad\xf0\x9f\xff")
	out := make([]byte, n)
	for i := range out {
		out[i] = alphabet[r.Intn(len(alphabet))]
	}
	return out
}
