package main

import (
	"fmt"
	"strings"

	"verifharness/lib"
)

// Grammar-directed generator of syntactically valid Lua 5.4 (+ LuaJIT numerals) token sequences,
// following the reference manual's §9 grammar production by production.  Programs are token lists so
// that single-token mutations (delete / duplicate / swap / keyword substitution) are easy.

type luaGen struct {
	r     *lib.Rng
	toks  []string
	depth int
	hits  map[string]int // production coverage
	names []string
}

func newLuaGen(r *lib.Rng) *luaGen {
	return &luaGen{r: r, hits: map[string]int{}, names: []string{"a", "b", "c", "x", "y", "foo", "bar", "t", "_v", "n1", "self", "k"}}
}

func (g *luaGen) emit(ts ...string) { g.toks = append(g.toks, ts...) }
func (g *luaGen) hit(p string)      { g.hits[p]++ }
func (g *luaGen) name() string      { return g.names[g.r.Intn(len(g.names))] }

var genNumerals = []string{"0", "1", "42", "007", "3.14", "5.", ".5", "1e10", "2E-3", "1.5e+3", "0x10", "0XfF", "0x.8", "0xA.8p1", "0x1p-2", "0x8P+3",
	"9223372036854775807", "9223372036854775808", "0xffffffffffffffffff", "12LL", "7ull", "0x1FLL", "3ULL", "1e308", "100ll",
	// well-formed numerals whose value overflows float64: valid Lua (inf)
	"1e999", "9e999", "1E400", "123456789e400", "0.1e1000"}
var genStrings = []string{`"s"`, `'q'`, `""`, `"a b"`, `"e\n\t\\"`, `'it\'s'`, `"\65\066\x41"`, `"\z   x"`, `"\u{48}\u{7FFFFFFF}"`, `"中文"`, `"tab\ttab"`,
	"[[long]]", "[==[x]]y]==]", "[[\nnl]]", "[=[a\nb]=]", `"\"q\""`, "'\\\nline'",
	// every line-break convention inside long brackets and after a backslash: bare CR, CRLF, LFCR
	"[[a\rb]]", "[==[x\r\ny]==]", "[[\r\rz]]", "[=[p\n\rq\rr]=]", "'\\\rcr'", "\"\\\r\ncrlf\""}
var binops = []string{"+", "-", "*", "/", "//", "%", "^", "..", "<", "<=", ">", ">=", "==", "~=", "and", "or", "&", "|", "~", "<<", ">>"}
var unops = []string{"-", "not", "#", "~"}

func (g *luaGen) block(maxStats int) {
	g.depth++
	n := 0
	if g.depth < 6 {
		n = g.r.Intn(maxStats + 1)
	}
	for i := 0; i < n; i++ {
		at := len(g.toks)
		g.stat()
		// `f` newline `(g)()` is one call in Lua: a statement that starts with '(' is separated by ';'
		if at > 0 && at < len(g.toks) && g.toks[at] == "(" && g.toks[at-1] != ";" {
			g.toks = append(g.toks[:at], append([]string{";"}, g.toks[at:]...)...)
		}
	}
	if g.r.Chance(1, 5) {
		g.hit("retstat")
		g.emit("return")
		if g.r.Chance(2, 3) {
			g.explist(2)
		}
		if g.r.Chance(1, 3) {
			g.emit(";")
		}
	}
	g.depth--
}

func (g *luaGen) stat() {
	k := g.r.Intn(20)
	if g.depth >= 5 && k >= 6 && k <= 13 {
		k = g.r.Intn(4)
	}
	switch k {
	case 0, 1, 2:
		g.hit("stat.assign")
		n := 1 + g.r.Intn(2)
		for i := 0; i < n; i++ {
			if i > 0 {
				g.emit(",")
			}
			g.varExp()
		}
		g.emit("=")
		g.explist(2)
	case 3, 4:
		g.hit("stat.call")
		g.callExp()
	case 5:
		g.hit("stat.semi")
		g.emit(";")
	case 6:
		g.hit("stat.do")
		g.emit("do")
		g.block(2)
		g.emit("end")
	case 7:
		g.hit("stat.while")
		g.emit("while")
		g.exp(2)
		g.emit("do")
		g.block(2)
		g.emit("end")
	case 8:
		g.hit("stat.repeat")
		g.emit("repeat")
		g.block(2)
		g.emit("until")
		g.exp(2)
	case 9:
		g.hit("stat.if")
		g.emit("if")
		g.exp(2)
		g.emit("then")
		g.block(2)
		for i := g.r.Intn(3); i > 0; i-- {
			g.hit("stat.elseif")
			g.emit("elseif")
			g.exp(2)
			g.emit("then")
			g.block(1)
		}
		if g.r.Chance(1, 2) {
			g.hit("stat.else")
			g.emit("else")
			g.block(1)
		}
		g.emit("end")
	case 10:
		g.hit("stat.fornum")
		g.emit("for", g.name(), "=")
		g.exp(1)
		g.emit(",")
		g.exp(1)
		if g.r.Chance(1, 3) {
			g.emit(",")
			g.exp(1)
		}
		g.emit("do")
		g.block(2)
		g.emit("end")
	case 11:
		g.hit("stat.forin")
		g.emit("for", g.name())
		for i := g.r.Intn(3); i > 0; i-- {
			g.emit(",", g.name())
		}
		g.emit("in")
		g.explist(2)
		g.emit("do")
		g.block(2)
		g.emit("end")
	case 12:
		g.hit("stat.function")
		g.emit("function", g.name())
		for i := g.r.Intn(3); i > 0; i-- {
			g.emit(".", g.name())
		}
		if g.r.Chance(1, 3) {
			g.emit(":", g.name())
		}
		g.funcbody()
	case 13:
		g.hit("stat.localfunction")
		g.emit("local", "function", g.name())
		g.funcbody()
	case 14, 15, 16:
		g.hit("stat.local")
		g.emit("local", g.name())
		closeUsed := false
		g.attrib(&closeUsed)
		for i := g.r.Intn(3); i > 0; i-- {
			g.emit(",", g.name())
			g.attrib(&closeUsed)
		}
		if g.r.Chance(3, 4) {
			g.emit("=")
			g.explist(2)
		}
	case 17:
		g.hit("stat.label")
		g.emit("::", g.name(), "::")
	case 18:
		g.hit("stat.goto")
		g.emit("goto", g.name())
	case 19:
		g.hit("stat.break")
		g.emit("break")
	}
}

// attrib: at most one <close> per local list (a second one is rejected by the reference compiler)
func (g *luaGen) attrib(closeUsed *bool) {
	if g.r.Chance(1, 8) {
		g.hit("attrib")
		a := []string{"const", "close"}[g.r.Intn(2)]
		if a == "close" {
			if *closeUsed {
				a = "const"
			}
			*closeUsed = true
		}
		g.emit("<", a, ">")
	}
}

func (g *luaGen) funcbody() {
	g.emit("(")
	switch g.r.Intn(4) {
	case 0:
	case 1:
		g.emit("...")
	default:
		g.emit(g.name())
		for i := g.r.Intn(3); i > 0; i-- {
			g.emit(",", g.name())
		}
		if g.r.Chance(1, 4) {
			g.emit(",", "...")
		}
	}
	g.emit(")")
	g.block(2)
	g.emit("end")
}

func (g *luaGen) explist(max int) {
	n := 1 + g.r.Intn(max)
	for i := 0; i < n; i++ {
		if i > 0 {
			g.emit(",")
		}
		g.exp(2)
	}
}

// prefixexp that is a var (Name | prefixexp[exp] | prefixexp.Name)
func (g *luaGen) varExp() {
	if g.r.Chance(1, 2) || g.depth > 5 {
		g.emit(g.name())
		return
	}
	g.prefixExp()
	if g.r.Chance(1, 2) {
		g.emit(".", g.name())
	} else {
		g.emit("[")
		g.exp(1)
		g.emit("]")
	}
}

func (g *luaGen) callExp() {
	g.prefixExp()
	if g.r.Chance(1, 4) {
		g.emit(":", g.name())
	}
	g.args()
}

func (g *luaGen) args() {
	switch g.r.Intn(6) {
	case 0:
		g.hit("args.string")
		g.emit(genStrings[g.r.Intn(len(genStrings))])
	case 1:
		g.hit("args.table")
		g.table()
	default:
		g.emit("(")
		if g.r.Chance(3, 4) {
			g.explist(3)
		}
		g.emit(")")
	}
}

func (g *luaGen) prefixExp() {
	g.depth++
	defer func() { g.depth-- }()
	switch {
	case g.depth > 6 || g.r.Chance(3, 5):
		g.emit(g.name())
	case g.r.Chance(1, 3):
		g.hit("prefix.parens")
		g.emit("(")
		g.exp(2)
		g.emit(")")
	default:
		g.prefixExp()
		switch g.r.Intn(3) {
		case 0:
			g.emit(".", g.name())
		case 1:
			g.emit("[")
			g.exp(1)
			g.emit("]")
		default:
			if g.r.Chance(1, 4) {
				g.emit(":", g.name())
			}
			g.args()
		}
	}
}

func (g *luaGen) table() {
	g.emit("{")
	n := g.r.Intn(4)
	for i := 0; i < n; i++ {
		switch g.r.Intn(3) {
		case 0:
			g.emit("[")
			g.exp(1)
			g.emit("]", "=")
			g.exp(1)
		case 1:
			g.emit(g.name(), "=")
			g.exp(1)
		default:
			g.exp(1)
		}
		if i < n-1 || g.r.Chance(1, 4) {
			g.emit([]string{",", ";"}[g.r.Intn(2)])
		}
	}
	g.emit("}")
}

func (g *luaGen) exp(budget int) {
	g.depth++
	defer func() { g.depth-- }()
	if g.depth > 7 {
		budget = 0
	}
	k := g.r.Intn(16)
	if budget <= 0 && k >= 8 {
		k = g.r.Intn(8)
	}
	switch k {
	case 0:
		g.emit([]string{"nil", "true", "false"}[g.r.Intn(3)])
	case 1, 2:
		g.hit("exp.numeral")
		if g.r.Chance(1, 6) {
			// arithmetic written without blanks: the numeral must end where the manual says it ends
			g.hit("exp.numeral.glued")
			g.emit(gluedArith[g.r.Intn(len(gluedArith))])
		} else {
			g.emit(genNumerals[g.r.Intn(len(genNumerals))])
		}
	case 3:
		g.hit("exp.string")
		g.emit(genStrings[g.r.Intn(len(genStrings))])
	case 4:
		g.emit("...")
	case 5, 6, 7:
		g.prefixExp()
	case 8:
		g.hit("exp.function")
		g.emit("function")
		g.funcbody()
	case 9:
		g.hit("exp.table")
		g.table()
	case 10, 11, 12, 13:
		g.hit("exp.binop")
		g.exp(budget - 1)
		g.emit(binops[g.r.Intn(len(binops))])
		g.exp(budget - 1)
	case 14, 15:
		g.hit("exp.unop")
		g.emit(unops[g.r.Intn(len(unops))])
		g.exp(budget - 1)
	}
}

// valid expressions in which an operator directly follows a numeral
var gluedArith = []string{"0xe+1", "0xAE-1", "0xfe+1", "0xE-0xe", "0xep-1", "0xEP+2", "1e+5", "1E-3+1", "0x1p+4", "0x.8p1-1", "3-2", "1e5+1", "7//2", "2^-1", "0xee-0xe", "1e1-1e1"}

var sepChoices = []string{" ", " ", " ", " ", "\n", "\n", "\t", "\r\n", "  ", " --c\n", " --[[x]] ", "\n-- line\n", " --[==[ a\nb ]==] ", "\r", " --[[ c\rd ]] ", " --[=[ e\r\nf\n\rg ]=] "}

// render joins tokens with random white space / comments / line ends.
func renderTokens(r *lib.Rng, toks []string) string {
	var sb strings.Builder
	for i, t := range toks {
		if i > 0 {
			sb.WriteString(sepChoices[r.Intn(len(sepChoices))])
		}
		sb.WriteString(t)
	}
	if r.Chance(1, 2) {
		sb.WriteString("\n")
	}
	return sb.String()
}

// renderPlain joins tokens with single spaces and newlines after statements-ish tokens (readable).
func renderPlain(toks []string) string { return strings.Join(toks, " ") }

func genProgram(r *lib.Rng, maxStats int) (*luaGen, []string) {
	g := newLuaGen(r)
	g.block(maxStats)
	return g, g.toks
}

var mutKeywords = []string{"end", "then", "do", "local", "function", "return", "=", "(", ")", ",", "in", "until", "}", "{", "]", "[", "..", "elseif"}

// mutate applies one single-token mutation; returns the description.
var mutPunct = []string{".", ":", ",", ";", "=", "..", "::", "...", "==", "~", "#"}
var mutPunctSet = func() map[string]bool {
	m := map[string]bool{}
	for _, p := range mutPunct {
		m[p] = true
	}
	return m
}()

func mutateTokens(r *lib.Rng, toks []string) ([]string, string) {
	if len(toks) == 0 {
		return []string{mutKeywords[r.Intn(len(mutKeywords))]}, "insert-into-empty"
	}
	out := append([]string(nil), toks...)
	i := r.Intn(len(out))
	switch r.Intn(5) {
	case 4:
		// punctuation substitution: the nearest punctuation token becomes another one ('.' <-> ':' …)
		for k := 0; k < len(out); k++ {
			j := (i + k) % len(out)
			if mutPunctSet[out[j]] {
				q := mutPunct[r.Intn(len(mutPunct))]
				for q == out[j] {
					q = mutPunct[r.Intn(len(mutPunct))]
				}
				old := out[j]
				out[j] = q
				return out, fmt.Sprintf("punct@%d(%s->%s)", j, old, q)
			}
		}
		return append(out[:i], out[i+1:]...), fmt.Sprintf("delete@%d(%s)", i, toks[i])
	case 0:
		return append(out[:i], out[i+1:]...), fmt.Sprintf("delete@%d(%s)", i, toks[i])
	case 1:
		out = append(out[:i+1], out[i:]...)
		return out, fmt.Sprintf("duplicate@%d(%s)", i, toks[i])
	case 2:
		if i+1 < len(out) {
			out[i], out[i+1] = out[i+1], out[i]
			return out, fmt.Sprintf("swap@%d(%s,%s)", i, toks[i], toks[i+1])
		}
		return append(out[:i], out[i+1:]...), fmt.Sprintf("delete@%d(%s)", i, toks[i])
	default:
		k := mutKeywords[r.Intn(len(mutKeywords))]
		out[i] = k
		return out, fmt.Sprintf("subst@%d(%s->%s)", i, toks[i], k)
	}
}
