#!/bin/bash
# Run once after a fresh restore, offline: regenerate Gen/, build every theorem module + the driver,
# and warm the Go build cache for the harness.
set -e
cd "$(dirname "$0")"
export GOFLAGS=-mod=mod GOPROXY=off GOSUMDB=off GOTOOLCHAIN=local
mkdir -p .work evidence replays
python3 extract/run.py
(cd lean && lake build 2>&1 | tail -5)
cp /repo/luahelper-lsp/go.sum harness/go.sum
(cd harness && go build -tags verif -o ../.work/harness ./cmd/harness)
echo setup-ok
