#!/usr/bin/env python3
"""seedcheck.py [seed-name-prefix …]  —  regression test of the checks themselves.

For every seeded change under /verif/seeded (or those whose directory name starts with one of the given
prefixes): make a scratch worktree of /repo outside /repo and /verif, apply patch.diff there, run the
property's quick check against that worktree (VERIF_REPO) and report whether it raises a VIOLATION.
/repo itself is never modified.  Results go to stdout and /verif/.work/seedcheck.json."""
import json, os, subprocess, sys, tempfile, shutil

VERIF = os.path.dirname(os.path.dirname(os.path.abspath(__file__)))


def sh(cmd, **kw):
    p = subprocess.run(cmd, stdout=subprocess.PIPE, stderr=subprocess.STDOUT, text=True, **kw)
    return p.returncode, p.stdout


def main():
    prefixes = sys.argv[1:]
    seeds = sorted(d for d in os.listdir(os.path.join(VERIF, "seeded"))
                   if os.path.isfile(os.path.join(VERIF, "seeded", d, "patch.diff")))
    if prefixes:
        seeds = [s for s in seeds if any(s.startswith(p) for p in prefixes)]
    wt = tempfile.mkdtemp(prefix="seedcheck-wt-")
    os.rmdir(wt)
    rc, out = sh(["git", "-C", "/repo", "worktree", "add", "--detach", wt, "HEAD"])
    if rc != 0:
        print(out)
        return 2
    results = {}
    try:
        for s in seeds:
            meta = json.load(open(os.path.join(VERIF, "seeded", s, "meta.json")))
            prop = meta["property"]
            if "SUPERSEDED" in meta.get("ran", ""):
                results[s] = "superseded (behaviour-preserving or inapplicable on the repaired code; see meta.json)"
                print(s, "::", results[s], flush=True)
                continue
            sh(["git", "-C", wt, "checkout", "--", "."])
            sh(["git", "-C", wt, "clean", "-fdq"])
            rc, out = sh(["git", "-C", wt, "apply", os.path.join(VERIF, "seeded", s, "patch.diff")])
            if rc != 0:
                results[s] = "patch does not apply to the current HEAD (" + out.strip().split("\n")[0][:120] + ")"
                print(s, "::", results[s], flush=True)
                continue
            env = dict(os.environ, VERIF_REPO=wt, VERIF_SEED=os.environ.get("VERIF_SEED", "1"))
            rc, out = sh([os.path.join(VERIF, "check"), prop, "--tier", "quick"], env=env, cwd=VERIF)
            vio = [l for l in out.split("\n") if l.startswith("VIOLATION")]
            results[s] = ("CAUGHT " + vio[0]) if (rc == 1 and vio) else ("MISSED (exit %d)" % rc)
            print(s, "::", results[s][:160], flush=True)
    finally:
        sh(["git", "-C", "/repo", "worktree", "remove", "--force", wt])
        shutil.rmtree(wt, ignore_errors=True)
    os.makedirs(os.path.join(VERIF, ".work"), exist_ok=True)
    json.dump(results, open(os.path.join(VERIF, ".work", "seedcheck.json"), "w"), indent=1)
    missed = [s for s, r in results.items() if r.startswith("MISSED")]
    print("%d seeds, %d caught, %d missed, %d stale, %d superseded" % (len(results), sum(r.startswith("CAUGHT") for r in results.values()),
                                                       len(missed), sum(r.startswith("patch") for r in results.values()),
                                                       sum(r.startswith("superseded") for r in results.values())))
    return 1 if missed else 0


if __name__ == "__main__":
    sys.exit(main())
