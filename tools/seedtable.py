#!/usr/bin/env python3
"""prints the markdown table of seeded changes (DESIGN.md §9)"""
import json, glob, os
print("| seed | property | what it breaks | caught by | first attempt |")
print("|---|---|---|---|---|")
for d in sorted(glob.glob('/verif/seeded/*')):
    m = json.load(open(d + '/meta.json'))
    ran = m.get('ran', '')
    first = 'missed, check strengthened' if 'MISSED' in ran or 'missed' in ran.lower() else 'caught'
    if 'SUPERSEDED' in ran:
        first += '; superseded by a later fix (patch no longer applies)'
    caught = m.get('caught_by') or m.get('detected_by') or ran
    print("| %s | %s | %s | %s | %s |" % (os.path.basename(d), m.get('property', ''), (m.get('breaks') or m.get('what') or '').replace('|', '/')[:160], caught.replace('|', '/')[:170], first))
