#!/usr/bin/env python3
import json, jsonschema, glob, sys
jsonschema.validate(json.load(open('/verif/MANIFEST.json')), json.load(open('/root/.vp/MANIFEST.schema.json')))
es = json.load(open('/root/.vp/EVIDENCE.schema.json'))
bad = 0
for f in sorted(glob.glob('/verif/evidence/*.json')):
    d = json.load(open(f))
    jsonschema.validate(d, es)
    c = d.get('coverage', {})
    if 'obligations' in c and c.get('obligations') != c.get('discharged'):
        print('NOT A VALID PROOF RECORD', f, c.get('obligations'), c.get('discharged'))
        bad += 1
print('valid', len(glob.glob('/verif/evidence/*.json')), 'evidence files')
sys.exit(1 if bad else 0)
