#!/usr/bin/env python3
"""assembles DESIGN.md from tools/design_head.md, the per-property data (checks.json, properties.jsonl,
Props/*.lean, known_findings.json, seeded/) and tools/design_tail.md"""
import json, re, glob, os, subprocess
V = '/verif'
checks = json.load(open(V + '/checks.json'))
props = {}
for l in open(V + '/properties.jsonl'):
    d = json.loads(l); props[d['id']] = d
kf = json.load(open(V + '/known_findings.json'))
files = {
 'C01': 'Model/Annot (lexer), Gen/Sites', 'C02': 'Model/Text, Spec/Lsp, Spec/TextFindings, Proofs/Text', 'C03': 'Model/Lexer, Model/Number, Model/Parser, Spec/Grammar, Gen/Lexer',
 'C04': 'Model/Lexer (ghost byte offsets), Spec/Col, Gen/Preds', 'C05': 'Model/Scope, Spec/Bind, Gen/Preds', 'C06': 'Model/Scope, Spec/Bind', 'C07': 'Spec/Bind (binder output)',
 'C08': 'Model/Diag', 'C09': 'Model/Merge', 'C10': 'Model/Sync, Proofs/Sync, Gen/Handlers, Gen/Sites', 'C11': 'Model/Scope, Spec/Bind (alpha_rename)', 'C12': '(oracle-free cross-comparison; classes from Model/Scope + Spec/Bind)',
 'C13': 'Model/Lexer (isUtf8), Model/Hov, Model/Comment, Proofs/Comment', 'C14': 'Model/Scope (completeAt), Spec/Bind', 'C15': 'Spec/Closure', 'C16': 'Model/Annot', 'C17': 'Model/Conf, Spec/Conf, Gen/Flags, Gen/Gates, Gen/Sites',
 'C18': 'Model/Mod', 'C19': 'Spec/Outline, Gen/Symbols', 'C20': 'Model/Pat'}
out = [open(V + '/tools/design_head.md').read()]
for pid in sorted(checks):
    c = checks[pid]
    out.append('\n### %s — %s\n' % (pid, props[pid]['title']))
    out.append('*Lean:* `%s`; theorems in `%s`; harness `harness/cmd/harness/%s.go`%s.\n' % (files.get(pid, ''), ', '.join('Props/' + m.split('.')[-1] + '.lean' for m in c['lean_modules']), pid.lower(), ' (+ regenerated tables)' if c.get('uses_gen') else ''))
    names = []
    for m in c['lean_modules']:
        body = open(V + '/lean/' + m.replace('.', '/') + '.lean').read()
        names += re.findall(r'^\s*theorem\s+([A-Za-z_][\w.\']*)', body, re.M)
    out.append('*Theorems (%d):* %s.\n' % (len(names), ', '.join('`%s`' % n for n in names)))
    out.append('*What is shown:* %s\n' % c['level_text'])
    if c.get('partial'):
        out.append('*%s*\n' % c['partial'])
    else:
        out.append('*Full proof of the modelled statement; the model-to-code tie is the correspondence above.*\n')
    ks = [f for f in kf['findings'] if f['property'] == pid]
    fx = [f for f in kf['fixed'] if ('property=' + pid) in f.split(' ', 2)[1] or ('property=' + pid) in f[:40]]
    if ks:
        out.append('*Findings:* ' + '; '.join('%s' % f['id'] for f in ks) + ' (§7).')
    if fx:
        out.append(' *Repairs:* ' + '; '.join(re.search(r'\b[0-9a-f]{7}\b', f).group(0) for f in fx if re.search(r'\b[0-9a-f]{7}\b', f)) + ' (§6).')
    out.append('\n')
tail = open(V + '/tools/design_tail.md').read()
fixed = '| property | commit | what failed |\n|---|---|---|\n'
for f in kf['fixed']:
    m = re.match(r'fixed: property=(\S+)\s+(.*)', f)
    rest = m.group(2)
    h = re.search(r'\b[0-9a-f]{7}\b', rest)
    fixed += '| %s | %s | %s |\n' % (m.group(1), h.group(0) if h else '', rest.replace(h.group(0), '', 1).strip().replace('|', '/')[:400] if h else rest[:400])
finds = '| id | class (decided from the input) | what happens |\n|---|---|---|\n'
for f in kf['findings']:
    finds += '| %s | %s | %s |\n' % (f['id'], f['class'].replace('|', '/')[:200], f['what'].replace('|', '/')[:420])
seeds = subprocess.run(['python3', V + '/tools/seedtable.py'], capture_output=True, text=True).stdout
tail = tail.replace('FIXED_TABLE', fixed).replace('FINDINGS_TABLE', finds).replace('SEED_TABLE', seeds)
out.append(tail)
open(V + '/DESIGN.md', 'w').write(''.join(out))
print('DESIGN.md', sum(1 for _ in open(V + '/DESIGN.md')), 'lines')
