#!/usr/bin/env python3
"""saveseed.py <prop> <slug> <diff> <descfile> <breaks> <needs> <caught_by> [ran]"""
import sys, os, json, shutil
prop, slug, diff, desc, breaks, needs, caught = sys.argv[1:8]
ran = sys.argv[8] if len(sys.argv) > 8 else "apply patch, ./check %s --tier quick -> VIOLATION" % prop
d = "/verif/seeded/%s-%s" % (prop, slug)
os.makedirs(d, exist_ok=True)
shutil.copy(diff, d + "/patch.diff")
shutil.copy(desc, d + "/demo")
json.dump({"property": prop, "breaks": breaks, "needs": needs, "ran": ran,
           "origin": "independent sub-agent given only the property text", "caught_by": caught},
          open(d + "/meta.json", "w"), indent=1)
print("saved", d)
