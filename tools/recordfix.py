#!/usr/bin/env python3
"""recordfix.py <prop> <commit> <finding-id or -> <slug> <breaks> <needs> <caught_by> <fixed-text>
Records a repair made in /repo: removes the finding (if any) from known_findings.json, appends the `fixed:` line,
and saves the reverse patch of the commit as seeded/<prop>-rev-<slug> (the defect as it was)."""
import sys, os, json, subprocess
prop, commit, fid, slug, breaks, needs, caught, text = sys.argv[1:9]
V = os.path.dirname(os.path.dirname(os.path.abspath(__file__)))
kf = json.load(open(V + "/known_findings.json"))
if fid != "-":
    n = len(kf["findings"])
    kf["findings"] = [f for f in kf["findings"] if f["id"] != fid]
    assert len(kf["findings"]) == n - 1, "finding not listed: " + fid
    text += " (former finding %s)" % fid
kf["fixed"].append("fixed: property=%s %s %s" % (prop, commit, text))
json.dump(kf, open(V + "/known_findings.json", "w"), indent=1, ensure_ascii=False)
d = "%s/seeded/%s-rev-%s" % (V, prop, slug)
os.makedirs(d, exist_ok=True)
diff = subprocess.run(["git", "-C", "/repo", "diff", commit, commit + "~1"], capture_output=True, text=True).stdout
open(d + "/patch.diff", "w").write(diff)
open(d + "/demo", "w").write("reverse patch of /repo commit %s\n%s\n" % (commit, breaks))
json.dump({"property": prop, "breaks": breaks, "needs": needs,
           "ran": "apply patch, ./check %s --tier quick -> VIOLATION" % prop,
           "origin": "reverse patch of a repair made in /repo (the defect as it was)", "caught_by": caught},
          open(d + "/meta.json", "w"), indent=1, ensure_ascii=False)
print("recorded", d)
