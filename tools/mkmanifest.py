#!/usr/bin/env python3
"""Writes MANIFEST.json from checks.json (one source of truth for what is claimed)."""
import json, os
V = os.path.dirname(os.path.dirname(os.path.abspath(__file__)))
checks = json.load(open(os.path.join(V, "checks.json")))
props = [json.loads(l) for l in open(os.path.join(V, "properties.jsonl"))]
m = {
 "version": 1,
 "setup_cmd": "cd /verif && ./setup.sh",
 "hooks": {
  "guard": "verif",
  "enable": "go build -tags verif (the harness module /verif/harness replaces luahelper-lsp => /repo/luahelper-lsp)",
  "baseline_off_cmd": "cd /repo/luahelper-lsp && GOFLAGS=-mod=mod GOPROXY=off GOSUMDB=off go test -json -vet=off -count=1 -timeout 25m ./...",
  "source_commits": json.load(open(os.path.join(V, "hooks.json")))["source_commits"],
  "add_only": True,
 },
 "engines": [
  {"name": "lean-model", "path": "/verif/lean", "serves_properties": sorted(checks.keys()),
   "kind_free_text": "Lean 4 models (Model/), specs (Spec/), regenerated tables (Gen/), proofs (Proofs/), property theorems (Props/), compiled model driver lhdriver"},
  {"name": "go-harness", "path": "/verif/harness", "serves_properties": sorted(checks.keys()),
   "kind_free_text": "Go correspondence harness: runs the real LuaHelper code (unit level and the real jrpc2 server in-process) and the Lean driver on the same generated inputs and diffs"},
  {"name": "extractor", "path": "/verif/extract", "serves_properties": sorted(k for k, c in checks.items() if c.get("uses_gen")),
   "kind_free_text": "go/ast fact extractor regenerating Lean tables and predicates from /repo on every run"},
 ],
 "checks": [],
 "not_applicable": [],
 "notes": "All checks: ./check <id> --tier quick|thorough. Verdict logic in DESIGN.md §4; known findings in known_findings.json.",
}
for p in props:
    pid = p["id"]
    c = checks.get(pid)
    if not c or c.get("disabled"):
        m["not_applicable"].append({"property_id": pid, "reason": (c or {}).get("na_reason", "no check registered in this revision (machinery for it not built yet; see DESIGN.md §9 order of work)")})
        continue
    m["checks"].append({
        "property_id": pid,
        "quick_cmd": f"./check {pid} --tier quick",
        "thorough_cmd": f"./check {pid} --tier thorough",
        "evidence_file": f"/verif/evidence/{pid}.json",
        "replay_cmd_template": f"./check {pid} --tier quick --replay {{path}}",
        "engine": "lean-model+go-harness",
        "level_claimed": {"category": c.get("level", "proof"), "text": c["level_text"], "design_ref": c.get("design_ref", "DESIGN.md §6 " + pid)},
        "level_note": c["level_note"],
        "technique": c["technique"],
    })
json.dump(m, open(os.path.join(V, "MANIFEST.json"), "w"), indent=1)
print("checks:", [c["property_id"] for c in m["checks"]], "n/a:", len(m["not_applicable"]))
